(** * Property C07, the part its header leaves open — the CPU work of the sample lookups

    "Each subsequent sample read or accessor call likewise completes within work bounded linearly
    in n plus the sample's size."  [Props/C07.v] proves this for the stream work of [read_sample]
    (two stream calls, at most the sample's bytes) and says that the meters do not see the pure
    sample-table lookups of src/track.rs.  This file states their cost.

    Statements only; proofs in [Proofs/LookupCost.v] (the counters and their bounds by the table
    sizes) and [Proofs/LookupCostOpen.v] (the tables of an opened file against its length).

    Reading the statements:
    - [sample_offset_c m t sid : res N * N] (and [sample_size_c], [sample_time_c],
      [sample_rendering_offset_c], [is_sync_sample_c], [sample_count_c]) is a copy of the model's
      lookup ([Model/Track.v], one recursive call per iteration of the Rust loop) that also returns the
      number of loop iterations performed: the number of times the body of a [for] loop of track.rs is
      entered, an iteration left through [return] or [?] included; [slice::binary_search] counts its
      halvings plus the final comparison.  Slice indexing ([nthN], [dropN] in the model) is O(1) in
      Rust and not counted.  Part (1) says the first component IS the model's lookup: the counter is
      defined by the same recursion, not guessed.
    - [xxx_steps] is the second component.  [read_sample_steps m t sid] adds the counters in the order
      [Mp4Track::read_sample] calls the lookups — [sample_offset], [sample_size], (seek and read),
      [sample_time], [sample_rendering_offset], [is_sync_sample] — a failing lookup ends the sum
      where it ends the function.
    - [table_weight t]: the number of entries of all tables of the track (stsc, stsz, stco, co64,
      stts, ctts, stss) plus, per attached traf, one plus the lengths of its per-sample duration, size
      and cts vectors.
    - part (2) holds for EVERY track value (parsed or not), sample id and build mode: no lookup loops
      over a count field without entries behind it.  A loop bounded by a count ([for j in
      0..sample_idx], [for i in first_sample_in_chunk..sample_id]) ends at the first entry that is
      missing.
    - part (3): for a reader returned by [open_fuel] on [data] (hypotheses of C07: valid bytes, length
      below 2^62, fuel above the length), every track's [table_weight] is at most the number of stream
      calls of the opening run, hence at most [open_A * lenN data + open_B] (the C07 constants).
      Proved through the operation meter, not through "4 bytes per entry": a child box may overhang
      its parent, which then seeks backwards, so the same bytes can be decoded more than once (a
      bounded number of times per nesting level — what the constants of C07 account for).
      The core fact, [C07_lookup_weight_le_ops], has no hypothesis: weight <= stream calls of the
      opening run.
      [lookup_A = 5 * open_A], [lookup_B = 5 * open_B + 1].
    - the bounds are attained up to the constant: [C07_lookup_linear_witness] (reading the last
      sample of a single chunk walks the whole stsz table — the per-call cost is linear in the table,
      which is what makes reading ALL samples of such a track quadratic, known finding D53). *)
From MP4 Require Import Cost Reader CostOpen LookupCost LookupCostOpen.
From MP4 Require Track.
Open Scope list_scope.
Open Scope N_scope.

Definition C07_lookup_statement : Prop :=
  (* (1) the instrumented lookups compute the model's lookups *)
  (forall m t sid,
     fst (sample_offset_c m t sid) = Track.sample_offset m t sid
     /\ fst (sample_size_c t sid) = Track.sample_size t sid
     /\ fst (sample_time_c m t sid) = Track.sample_time m t sid
     /\ fst (sample_rendering_offset_c t sid) = Track.sample_rendering_offset t sid
     /\ fst (is_sync_sample_c t sid) = Track.is_sync_sample t sid
     /\ fst (sample_count_c t) = Track.sample_count t)
  (* (2) their loop iterations are bounded by the table sizes, for all inputs *)
  /\ (forall m t sid,
     read_sample_steps m t sid <= 5 * table_weight t + 1
     /\ sample_offset_steps m t sid <= table_weight t + 1
     /\ sample_count_steps t <= table_weight t)
  (* (3) and the tables of an opened file by its length *)
  /\ (forall data m fuel r s',
     bytes_ok data = true -> lenN data < 2 ^ 62 -> lenN data < N.of_nat fuel ->
     run (open_fuel fuel m (lenN data)) (stream_at data 0) = (Ok r, s') ->
     forall m' tid t sid, tracks_get tid (rd_tracks r) = Some t ->
       table_weight (track_view t) <= open_A * lenN data + open_B
       /\ read_sample_steps m' (track_view t) sid <= lookup_A * lenN data + lookup_B
       /\ sample_offset_steps m' (track_view t) sid <= lookup_A * lenN data + lookup_B
       /\ sample_count_steps (track_view t) <= lookup_A * lenN data + lookup_B).

Theorem C07_lookup : C07_lookup_statement.
Proof.
  split; [|split].
  - intros m t sid.
    exact (conj (sample_offset_c_fst m t sid) (conj (sample_size_c_fst t sid) (conj (sample_time_c_fst m t sid)
          (conj (sample_rendering_offset_c_fst t sid) (conj (is_sync_sample_c_fst t sid) (sample_count_c_fst t)))))).
  - intros m t sid.
    exact (conj (read_sample_steps_weight m t sid) (conj (sample_offset_steps_weight m t sid)
          (sample_count_steps_weight t))).
  - intros data m fuel r s' Hd Hl Hf E m' tid t sid Ht.
    split; [exact (open_table_weight data m fuel r s' Hd Hl Hf E tid t Ht)|].
    exact (open_read_sample_steps data m fuel r s' Hd Hl Hf E m' tid t sid Ht).
Qed.
Print Assumptions C07_lookup.

(** ** The parts, by name *)

(** the model's [read_sample], written with the instrumented lookups *)
Theorem C07_read_sample_uses_instrumented : forall m t sid,
  Track.read_sample m t sid =
  match fst (sample_offset_c m t sid) with
  | Err ENotFound => Ret None
  | Err e => Throw e
  | Panic s => Crash s
  | OutOfFuel => Spin
  | Ok off =>
      match fst (sample_size_c t sid) with
      | Err ENotFound => Ret None
      | Err e => Throw e
      | Panic s => Crash s
      | OutOfFuel => Spin
      | Ok sz =>
          seek_to off ;;;
          buf <- rd_exact sz ;;
          alloc (2 * sz + 32) ;;;
          '(st, dur) <- lift (fst (sample_time_c m t sid)) ;;
          sync <- lift (fst (is_sync_sample_c t sid)) ;;
          Ret (Some (Track.mkSample st dur (fst (sample_rendering_offset_c t sid)) sync buf))
      end
  end.
Proof. exact read_sample_uses_c. Qed.

(** every loop against the table it runs over ([_c]: result and steps; [snd]: the steps) *)
Theorem C07_lookup_loops :
  (forall tb sid, stsc_index_steps tb sid <= lenN (Track.t_stsc tb))
  /\ (forall es i sc sid, snd (ctts_index_from_c es i sc sid) <= lenN es)
  /\ (forall t sid, find_traf_steps t sid <= lenN (Track.tr_frags t))
  /\ (forall l cnt acc, snd (sum_sizes_c l cnt acc) <= lenN l + 1 /\ snd (sum_sizes_c l cnt acc) <= cnt)
  /\ (forall l cnt acc, snd (sum_run_sizes_c l cnt acc) <= lenN l + 1)
  /\ (forall m es sc el sid, snd (stts_scan_c m es sc el sid) <= lenN es)
  /\ (forall l cnt acc, snd (sum_durations_c l cnt acc) <= lenN l)
  /\ (forall l x, snd (binary_search_ok_c l x) <= N.log2_up (lenN l) + 1 /\ snd (binary_search_ok_c l x) <= lenN l)
  /\ (forall t, sample_count_steps t <= lenN (Track.tr_frags t)).
Proof.
  repeat split.
  - exact stsc_index_steps_le.
  - intros es i sc sid. apply ctts_index_steps_le.
  - exact find_traf_steps_le.
  - apply sum_sizes_steps_le.
  - apply sum_sizes_steps_le_cnt.
  - intros l cnt acc. apply sum_run_sizes_steps_le.
  - intros m es sc el sid. apply stts_scan_steps_le.
  - intros l cnt acc. apply sum_durations_steps_le.
  - apply binary_search_steps_le_log.
  - apply binary_search_steps_le.
  - exact sample_count_steps_le.
Qed.

(** the weight of every track is at most the number of stream calls the opening made — for ANY data,
    declared size, start position and fuel *)
Theorem C07_lookup_weight_le_ops : forall data m fuel size p,
  let '(r, _, mt) := runm (open_fuel fuel m size) (stream_at data p) (meter0 None) in
  forall rd, r = Ok rd -> forall tid t, tracks_get tid (rd_tracks rd) = Some t ->
    table_weight (track_view t) <= m_ops mt.
Proof. exact open_table_weight_ops. Qed.

(** the accessors of the reader *)
Theorem C07_rd_accessor_steps : forall data m fuel r s',
  bytes_ok data = true -> lenN data < 2 ^ 62 -> lenN data < N.of_nat fuel ->
  run (open_fuel fuel m (lenN data)) (stream_at data 0) = (Ok r, s') ->
  forall m' tid t sid, tracks_get tid (rd_tracks r) = Some t ->
    (* [rd_read_sample], [rd_sample_offset], [rd_sample_count] run these lookups on [track_view t] *)
    rd_read_sample m' r tid sid = Track.read_sample m' (track_view t) sid
    /\ rd_sample_offset m' r tid sid = fst (sample_offset_c m' (track_view t) sid)
    /\ rd_sample_count r tid = Ok (fst (sample_count_c (track_view t)))
    /\ read_sample_steps m' (track_view t) sid <= lookup_A * lenN data + lookup_B
    /\ sample_offset_steps m' (track_view t) sid <= lookup_A * lenN data + lookup_B
    /\ sample_count_steps (track_view t) <= lookup_A * lenN data + lookup_B.
Proof.
  intros data m fuel r s' Hd Hl Hf E m' tid t sid Ht.
  unfold rd_read_sample, rd_sample_offset, rd_sample_count. rewrite Ht.
  rewrite sample_offset_c_fst, sample_count_c_fst.
  repeat split; try reflexivity; apply (open_read_sample_steps data m fuel r s' Hd Hl Hf E m' tid t sid Ht).
Qed.
Print Assumptions C07_rd_accessor_steps.

(** ** Non-vacuity *)

(** the 885-byte test file of Reader.v (one trak, three samples in one chunk, all seven tables with one
    entry except stsz with three): reading sample 2 of track 1 takes 5 loop iterations — one stsc
    entry and one earlier sample of the chunk for the offset, none for the size, one stts entry, one
    ctts entry, one comparison in stss; the weight of the track is 8 *)
Example C07_lookup_test_file :
  match fst (run (open_fuel 886 Dbg 885) (stream_at reader_test_file 0)) with
  | Ok rd =>
      match tracks_get 1 (rd_tracks rd) with
      | Some t =>
          let v := track_view t in
          read_sample_steps Dbg v 2 = 5
          /\ sample_offset_steps Dbg v 2 = 2 /\ sample_size_steps v 2 = 0 /\ sample_time_steps Dbg v 2 = 1
          /\ sample_rendering_offset_steps v 2 = 1 /\ is_sync_steps v 2 = 1 /\ sample_count_steps v = 0
          /\ table_weight v = 8
          /\ m_ops (snd (runm (open_fuel 886 Dbg 885) (stream_at reader_test_file 0) (meter0 None))) = 334
          /\ fst (sample_offset_c Dbg v 2) = Ok 58
          (* sample 4 does not exist: [sample_offset] succeeds after one stsc entry, [sample_size] fails *)
          /\ read_sample_steps Dbg v 4 = 1
      | None => False
      end
  | _ => False
  end.
Proof. vm_compute. repeat split; reflexivity. Qed.

(** the fragmented test file (two moofs of one traf with two samples each for track 1): reading sample 4
    takes 11 iterations — both trafs and one earlier size of the run for the offset, both trafs for
    the size, both trafs for the time (default duration: no loop over durations), both trafs for the
    rendering offset, both trafs for [sample_count()] in [is_sync_sample]; the weight is 14 *)
Example C07_lookup_test_frag_file :
  match fst (run (open_fuel 2000 Dbg (lenN reader_test_frag_file)) (stream_at reader_test_frag_file 0)) with
  | Ok rd =>
      match tracks_get 1 (rd_tracks rd) with
      | Some t =>
          let v := track_view t in
          read_sample_steps Dbg v 4 = 11
          /\ sample_offset_steps Dbg v 4 = 3 /\ sample_size_steps v 4 = 2 /\ sample_time_steps Dbg v 4 = 2
          /\ sample_rendering_offset_steps v 4 = 2 /\ is_sync_steps v 4 = 2 /\ sample_count_steps v = 2
          /\ table_weight v = 14
      | None => False
      end
  | _ => False
  end.
Proof. vm_compute. repeat split; reflexivity. Qed.

(** the bound is attained up to the constant: one chunk holding all [n] samples, per-sample sizes.
    [sample_offset] of the last sample enters its loops [n] times (one stsc entry, [n - 1] sizes);
    with a constant sample size the in-chunk loop is a multiplication *)
Definition one_chunk_track (n : N) (fixed : N) : Track.track :=
  Track.mkTrack 1
    (Track.mkTables [Track.mkStsc 1 n 1 1] fixed n (if fixed =? 0 then repeatN 10 n else [])
                    (Some [1000]) None [(n, 1)] None None)
    [] 0.

Example C07_lookup_linear_witness :
  sample_offset_steps Dbg (one_chunk_track 100 0) 100 = 100
  /\ sample_offset_steps Dbg (one_chunk_track 200 0) 200 = 200
  /\ read_sample_steps Dbg (one_chunk_track 200 0) 200 = 201
  /\ table_weight (one_chunk_track 200 0) = 203
  /\ fst (sample_offset_c Dbg (one_chunk_track 200 0) 200) = Ok 2990
  /\ sample_offset_steps Dbg (one_chunk_track 200 7) 200 = 1.
Proof. vm_compute. repeat split; reflexivity. Qed.

(** a count field without entries behind it does not buy iterations: a run announcing 2^32 - 1
    samples with no per-sample vectors costs one iteration per traf and one failing iteration *)
Definition empty_run_track : Track.track :=
  Track.mkTrack 1 (Track.mkTables [] 0 0 [] None None [] None None)
    [Track.mkFragrun 0 None None None true 0 4294967295 None [] [] []] 0.

Example C07_lookup_count_without_entries :
  sample_offset_c Dbg empty_run_track 4294967295 = (Err EData, 2)
  /\ read_sample_steps Dbg empty_run_track 4294967295 = 2
  /\ table_weight empty_run_track = 1.
Proof. vm_compute. repeat split; reflexivity. Qed.
