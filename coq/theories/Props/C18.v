(** * Property C18 — the metadata accessors on iTunes-style user data

    "For any movie whose user-data carries an iTunes-style item list, the title, year, poster and
    summary accessors return exactly the encoded values — text decoded as UTF-8, the year from
    either its decimal text or its 4-byte binary form, the poster bytes verbatim — and report
    absence for items that are missing, for metadata with a different handler, and for movies
    without metadata; unrelated items never change the answer."

    Statements only; the proofs are in [Proofs/MetaProofs.v].  The bytes come from the reference
    renderer [Iso/IsoMeta.v] ([iso_udta o t]), written from the ISO / QuickTime / iTunes layout
    documents without reference to the library:

      udta > [other boxes] meta ([version/flags word, ISO form only]
                                 [other boxes] hdlr [other boxes] ilst [other boxes]   (or ilst .. hdlr)
                                 ilst > items in the order [o_layout o]:
                                          '©nam' title, '©day' year, 'covr' poster, 'desc' summary,
                                          each holding one 'data' box (type, locale, value),
                                          and any number of unrelated items (any other type code,
                                          any payload) anywhere in between) [other boxes]

    Item codes and value types the library maps (src/mp4box/mod.rs boxtype table, ilst.rs, types.rs):
    0xA96E616D -> Title, 0xA9646179 -> Year, 'covr' -> Poster, 'desc' -> Summary; a 'data' box is
    accepted only with type indicator 0 (Binary), 1 (Text), 13 (Image), 21 (TempoCpil).

    The abstract value is [tags] (each of the four items present or not; the year as decimal
    text [YText n] or as four big-endian bytes [YBin n]).  [expected o t] is what a reader must
    answer: for handler type 'mdir' the tag for every key that occurs in the layout ([key_in]),
    None for the others; for any other handler type four times None.  [answers i] are the four
    accessors of [Mp4Reader::metadata()] ([md_title], [md_year], [md_poster], [md_summary]).

    Results that contradict the property text are marked REFUTED below. *)
From MP4 Require Import Kit BoxUdta Reader BoxFtyp BoxMvhd IsoMeta MetaProofs.
Open Scope list_scope.
Open Scope N_scope.

(** the side conditions, spelled out: "within wire limits" *)
Example opts_ok_means : forall o, opts_ok o =
  ( (* unrelated items: any 32-bit code but the four known ones; any payload *)
    Forall (fun s => match s with
                     | SKey _ => True
                     | SNoise c _ => c < U32 /\ ~ In c [cc_nam; cc_day; cc_covr; cc_desc]
                     end) (o_layout o)
    /\ o_locale o < U32
    (* the cover art's type indicator is one the library knows (13 = JPEG; NOT 14 = PNG) *)
    /\ In (o_poster_type o) [0; 1; 13; 21]
    /\ o_handler o < U32
    /\ o_hdlr_predef o < U32
    /\ lenN (o_hdlr_reserved o) = 12
    (* other boxes in meta: any 32-bit code but hdlr and ilst *)
    /\ Forall (fun c => fst c < U32 /\ ~ In (fst c) [cc_hdlr; cc_ilst]) (o_meta_a o)
    /\ Forall (fun c => fst c < U32 /\ ~ In (fst c) [cc_hdlr; cc_ilst]) (o_meta_b o)
    /\ Forall (fun c => fst c < U32 /\ ~ In (fst c) [cc_hdlr; cc_ilst]) (o_meta_c o)
    (* other boxes in udta: any 32-bit code but meta *)
    /\ Forall (fun c => fst c < U32 /\ ~ In (fst c) [cc_meta]) (o_udta_pre o)
    /\ Forall (fun c => fst c < U32 /\ ~ In (fst c) [cc_meta]) (o_udta_post o)
    (* the QuickTime form (no version/flags word) is recognised only when hdlr is the first child *)
    /\ (o_full_meta o = false -> o_hdlr_last o = false /\ o_meta_a o = []) ).
Proof. reflexivity. Qed.

Example tags_ok_means : forall t, tags_ok t =
  ( (forall v, tg_title t = Some v -> utf8_valid v = true)
    /\ (forall y, tg_year t = Some y -> year_value y < U32)
    /\ (forall v, tg_summary t = Some v -> utf8_valid v = true) ).
Proof. reflexivity. Qed.

Example expected_means : forall o t, expected o t =
  if o_handler o =? cc_mdir then
    (if key_in TTitle (o_layout o) then tg_title t else None,
     if key_in TYear (o_layout o) then option_map year_value (tg_year t) else None,
     if key_in TPoster (o_layout o) then tg_poster t else None,
     if key_in TSummary (o_layout o) then tg_summary t else None)
  else (None, None, None, None).
Proof. reflexivity. Qed.

Example answers_means : forall i, answers i = (md_title i, md_year i, md_poster i, md_summary i).
Proof. reflexivity. Qed.

Example udta_ilst_is_metadata : forall r,
  rd_metadata r = match moov_udta (rd_moov r) with Some u => udta_ilst u | None => None end.
Proof. reflexivity. Qed.

(** sufficient fuel: one unit per box on the path (the loops never look at a size field for it) *)
Example udta_fuel_means : forall o t, udta_fuel o t =
  (length (iso_udta_children o t) + (length (iso_meta_children o t) + (length (iso_ilst_children o t) + 1)))%nat.
Proof. reflexivity. Qed.
Example movie_fuel_means : forall o t mnoise tail, movie_fuel o t mnoise tail =
  (length tail + 2 + (length mnoise + 1 + 1 + udta_fuel o t))%nat.
Proof. reflexivity. Qed.

(** ** The user-data box, decoded the way a container decodes a child (header, then body), at
    any position of any stream, in both build modes, with any sufficient fuel *)
Theorem metadata_sound : forall (m : mode) (fuel : nat) (o : opts) (t : tags) (pre post : bytes),
  opts_ok o -> tags_ok t ->
  lenN (iso_udta o t) < U32 ->
  lenN pre + lenN (iso_udta o t) < 2 ^ 63 ->
  (udta_fuel o t <= fuel)%nat ->
  let data := pre ++ iso_udta o t ++ post in
  exists u,
    run (h <- read_header ;; u <- dec_udta_fuel fuel m (snd h) ;; Ret (fst h, u))
        (stream_at data (lenN pre))
    = (Ok (UdtaBox, u), stream_at data (lenN pre + lenN (iso_udta o t)))
    /\ answers (udta_ilst u) = expected o t.
Proof. exact metadata_sound_lemma. Qed.
Print Assumptions metadata_sound.

(** user data without a meta box (any other boxes): every accessor reports absence *)
Theorem metadata_absent : forall (m : mode) (fuel : nat) (others : list (N * bytes)) (pre post : bytes),
  Forall (fun c => fst c < U32 /\ ~ In (fst c) [cc_meta]) others ->
  lenN (iso_udta_plain others) < U32 ->
  lenN pre + lenN (iso_udta_plain others) < 2 ^ 63 ->
  (length others <= fuel)%nat ->
  let data := pre ++ iso_udta_plain others ++ post in
  exists u,
    run (h <- read_header ;; u <- dec_udta_fuel fuel m (snd h) ;; Ret (fst h, u))
        (stream_at data (lenN pre))
    = (Ok (UdtaBox, u), stream_at data (lenN pre + lenN (iso_udta_plain others)))
    /\ answers (udta_ilst u) = (None, None, None, None).
Proof. exact metadata_absent_lemma. Qed.
Print Assumptions metadata_absent.

(** ** A whole file through [Mp4Reader::read_header]:
    ftyp, moov (mvhd, other boxes, the user data), other top-level boxes (mdat, free, ...).
    ftyp and mvhd are the model's encodings (their round trips are [RtFtyp], [RtMvhd]). *)
Example movie_with_udta_means : forall f mv mnoise u tail,
  movie_with_udta f mv mnoise u tail =
  wout (enc_ftyp f) ++ iso_box 0x6d6f6f76 (wout (enc_mvhd mv) ++ iso_boxes mnoise ++ u) ++ iso_boxes tail.
Proof. reflexivity. Qed.

Example movie_ok_means : forall f mv mnoise tail, movie_ok f mv mnoise tail =
  ( ftyp_wf f = true /\ ftyp_size f < U32 /\ mvhd_wf mv = true /\ mvhd_size mv < U32
    (* other boxes in moov: not mvhd, meta, mvex, trak, udta *)
    /\ Forall (fun c => fst c < U32 /\ ~ In (fst c) [0x6d766864; cc_meta; 0x6d766578; 0x7472616b; cc_udta]) mnoise
    (* other top-level boxes: not ftyp, moov, moof, emsg *)
    /\ Forall (fun c => fst c < U32 /\ ~ In (fst c) [0x66747970; 0x6d6f6f76; 0x6d6f6f66; 0x656d7367]) tail ).
Proof. reflexivity. Qed.

Theorem metadata_file_sound : forall (m : mode) (fuel : nat) (o : opts) (t : tags)
    (f : ftyp) (mv : mvhd) (mnoise tail : list (N * bytes)),
  opts_ok o -> tags_ok t -> movie_ok f mv mnoise tail ->
  let file := movie_with_udta f mv mnoise (iso_udta o t) tail in
  lenN file < U32 ->
  (movie_fuel o t mnoise tail <= fuel)%nat ->
  exists r,
    run (open_fuel fuel m (lenN file)) (stream_at file 0) = (Ok r, stream_at file (lenN file))
    /\ rd_ftyp r = f /\ moov_mvhd (rd_moov r) = mv
    /\ answers (rd_metadata r) = expected o t.
Proof. exact metadata_file_sound_lemma. Qed.
Print Assumptions metadata_file_sound.

(** a movie whose user data has no meta box *)
Theorem metadata_file_absent : forall (m : mode) (fuel : nat) (others : list (N * bytes))
    (f : ftyp) (mv : mvhd) (mnoise tail : list (N * bytes)),
  Forall (fun c => fst c < U32 /\ ~ In (fst c) [cc_meta]) others -> movie_ok f mv mnoise tail ->
  let file := movie_with_udta f mv mnoise (iso_udta_plain others) tail in
  lenN file < U32 ->
  (file_fuel mnoise [(cc_udta, [])] tail (length others) <= fuel)%nat ->
  exists r,
    run (open_fuel fuel m (lenN file)) (stream_at file 0) = (Ok r, stream_at file (lenN file))
    /\ answers (rd_metadata r) = (None, None, None, None).
Proof. exact metadata_file_absent_lemma. Qed.
Print Assumptions metadata_file_absent.

(** a movie without user data *)
Theorem metadata_file_no_udta : forall (m : mode) (fuel : nat)
    (f : ftyp) (mv : mvhd) (mnoise tail : list (N * bytes)),
  movie_ok f mv mnoise tail ->
  let file := movie_with_udta f mv mnoise [] tail in
  lenN file < U32 ->
  (file_fuel mnoise [] tail 0 <= fuel)%nat ->
  exists r,
    run (open_fuel fuel m (lenN file)) (stream_at file 0) = (Ok r, stream_at file (lenN file))
    /\ answers (rd_metadata r) = (None, None, None, None).
Proof. exact metadata_file_no_udta_lemma. Qed.
Print Assumptions metadata_file_no_udta.

(** ** What the code does at the edges of the expected semantics *)

(** the year as text is whatever [str::parse::<u32>] accepts after lossy decoding: an optional
    '+', at least one digit, digits only, below 2^32 (see [year_forms_example]) *)
Theorem year_text_forms : forall s,
  item_to_u32 (mkIlstItem (mkData s "Text")) = parse_u32 (utf8_lossy s).
Proof. exact MetaProofs.year_text_forms. Qed.

(** the year as binary: only with exactly four bytes *)
Theorem year_binary_forms : forall v,
  item_to_u32 (mkIlstItem (mkData v "Binary")) = if lenN v =? 4 then Some (unbe v) else None.
Proof. exact MetaProofs.year_binary_forms. Qed.

(** a year under value type 13 or 21 (21 is QuickTime's "big-endian signed integer") is not reported *)
Theorem year_other_types : forall v,
  item_to_u32 (mkIlstItem (mkData v "Image")) = None
  /\ item_to_u32 (mkIlstItem (mkData v "TempoCpil")) = None.
Proof. exact MetaProofs.year_other_types. Qed.

(** title and summary ignore the value type; ill-formed UTF-8 is replaced, never rejected *)
Theorem text_any_type : forall v nm, item_to_str (mkIlstItem (mkData v nm)) = utf8_lossy v.
Proof. exact MetaProofs.text_any_type. Qed.

(** an item that occurs twice: the later one wins *)
Theorem duplicate_item_last_wins : forall k a b l,
  ilst_get k (ilst_insert k b (ilst_insert k a l)) = Some b.
Proof. exact MetaProofs.duplicate_item_last_wins. Qed.

(** a 'data' box with any other type indicator is an error *)
Theorem data_type_accepted : forall ty, ty <> 0 -> ty <> 1 -> ty <> 13 -> ty <> 21 ->
  datatype_try_from ty = Err EData.
Proof. exact MetaProofs.data_type_accepted. Qed.

(** ** Examples (non-vacuity and witnesses), all by computation *)
Definition ex18_zeros12 : bytes := be 4 0 ++ be 4 0 ++ be 4 0.
Definition ex18_hdlr (h : N) : N * bytes := (cc_hdlr, iso_hdlr_payload 0 h ex18_zeros12 [0]).
(** ISO form: udta > meta > hdlr 'mdir', ilst > items *)
Definition ex18_udta (items : list (N * bytes)) : bytes :=
  iso_box cc_udta (iso_box cc_meta (be 4 0 ++ iso_boxes [ex18_hdlr cc_mdir; (cc_ilst, iso_boxes items)])).
Definition ex18_answers (udta : bytes) : res (option bytes * option N * option bytes * option bytes) :=
  res_map (fun u => answers (udta_ilst u))
          (fst (run (h <- read_header ;; dec_udta_fuel 50 Dbg (snd h)) (stream_at udta 0))).
Definition ex18_file (udta : bytes) : bytes :=
  movie_with_udta (mkFtyp 0x69736f6d 512 [0x69736f6d]) mvhd_default [] udta [(0x6d646174, [1; 2; 3])].
Definition ex18_open (udta : bytes) : res (option bytes * option N * option bytes * option bytes) :=
  res_map (fun r => answers (rd_metadata r))
          (fst (run (open_fuel 100 Dbg (lenN (ex18_file udta))) (stream_at (ex18_file udta) 0))).
Definition ex18_text (s : string) : bytes := bytes_of_string s.

(** options that exercise everything: QuickTime-style hdlr fields, unrelated items, items out of
    order, other boxes in meta and udta, hdlr after ilst *)
Definition ex18_opts (full last : bool) (handler : N) : opts :=
  mkOpts full last handler 0x6d686c72 (be 4 0x6170706c ++ be 4 0 ++ be 4 0) [4; 110; 97; 109; 101] 0x00000409 wk_jpeg
         [SNoise 0xa9746f6f [1; 2; 3]; SKey TSummary; SKey TYear; SNoise 0x2d2d2d2d []; SKey TPoster; SKey TTitle]
         (if full then [(0x66726565, [9])] else []) [(0x66726565, [])] [(0x75756964, [1; 2])]
         [(0x6e616d65, [65])] [(0x66726565, [])].
Definition ex18_tags : tags :=
  mkTags (Some (ex18_text "Big Buck Bunny")) (Some (YText 2008)) (Some [255; 216; 255; 224; 0]) (Some [195; 169]).

Example metadata_example :
  let o := ex18_opts true true cc_mdir in
  lenN (iso_udta o ex18_tags) = 249
  /\ ex18_answers (iso_udta o ex18_tags) = Ok (expected o ex18_tags)
  /\ expected o ex18_tags
     = (Some (ex18_text "Big Buck Bunny"), Some 2008, Some [255; 216; 255; 224; 0], Some [195; 169])
  /\ ex18_open (iso_udta o ex18_tags) = Ok (expected o ex18_tags)
  (* QuickTime form, binary year, missing title and summary *)
  /\ (let o := ex18_opts false false cc_mdir in
      let t := mkTags None (Some (YBin 1999)) (Some []) None in
      ex18_answers (iso_udta o t) = Ok (None, Some 1999, Some [], None)
      /\ expected o t = (None, Some 1999, Some [], None))
  (* another handler type: nothing is reported *)
  /\ ex18_answers (iso_udta (ex18_opts true false 0x6d647461) ex18_tags) = Ok (None, None, None, None)
  (* no meta box; no udta box *)
  /\ ex18_answers (iso_udta_plain [(0x6e616d65, [65])]) = Ok (None, None, None, None)
  /\ ex18_open [] = Ok (None, None, None, None).
Proof. vm_compute. repeat split; reflexivity. Qed.

(** the hypotheses of [metadata_sound] hold for these options *)
Example metadata_example_ok :
  opts_ok (ex18_opts true true cc_mdir) /\ opts_ok (ex18_opts false false cc_mdir) /\ tags_ok ex18_tags.
Proof.
  assert (NI : forall c l, forallb (fun x => negb (x =? c)) l = true -> ~ In c l).
  { intros c l H Hc. rewrite forallb_forall in H. specialize (H c Hc).
    rewrite N.eqb_refl in H. discriminate. }
  assert (K : forall full last,
             (full = false -> last = false) ->
             opts_ok (ex18_opts full last cc_mdir)).
  { intros full last Hq. unfold opts_ok, noise_ok.
    repeat match goal with |- _ /\ _ => split end.
    - repeat first [ apply Forall_nil
                   | apply Forall_cons; [first [exact I | split; [vm_compute; reflexivity | apply NI; vm_compute; reflexivity]]|] ].
    - vm_compute. reflexivity.
    - right. right. left. reflexivity.
    - vm_compute. reflexivity.
    - vm_compute. reflexivity.
    - vm_compute. reflexivity.
    - destruct full; repeat first [ apply Forall_nil
        | apply Forall_cons; [split; [vm_compute; reflexivity | apply NI; vm_compute; reflexivity]|] ].
    - repeat first [ apply Forall_nil
        | apply Forall_cons; [split; [vm_compute; reflexivity | apply NI; vm_compute; reflexivity]|] ].
    - repeat first [ apply Forall_nil
        | apply Forall_cons; [split; [vm_compute; reflexivity | apply NI; vm_compute; reflexivity]|] ].
    - repeat first [ apply Forall_nil
        | apply Forall_cons; [split; [vm_compute; reflexivity | apply NI; vm_compute; reflexivity]|] ].
    - repeat first [ apply Forall_nil
        | apply Forall_cons; [split; [vm_compute; reflexivity | apply NI; vm_compute; reflexivity]|] ].
    - cbn [ex18_opts o_full_meta o_hdlr_last o_meta_a]. intros ->. split; [now apply Hq | reflexivity]. }
  split; [apply K; discriminate|]. split; [apply K; reflexivity|].
  unfold tags_ok, ex18_tags. cbn [tg_title tg_year tg_summary].
  repeat split; intros x E; inversion E; subst; vm_compute; reflexivity.
Qed.

(** *** REFUTED for PNG cover art: type indicator 14 (the usual one next to 13 = JPEG) is not a
    [DataType]; [DataBox::read_box] fails, the error propagates, and the WHOLE FILE cannot be
    opened — no accessor answers anything.  With 13 the same bytes are returned verbatim. *)
Definition ex18_png : bytes :=
  ex18_udta [(cc_nam, iso_item_payload wk_utf8 0 [65]); (cc_covr, iso_item_payload wk_png 0 [137; 80; 78; 71])].
Theorem poster_png_refuted :
  ex18_answers ex18_png = Err EData
  /\ ex18_open ex18_png = Err EData
  /\ ex18_open (ex18_udta [(cc_nam, iso_item_payload wk_utf8 0 [65]);
                           (cc_covr, iso_item_payload wk_jpeg 0 [137; 80; 78; 71])])
     = Ok (Some [65], None, Some [137; 80; 78; 71], None)
  /\ ex18_png =
     [0; 0; 0; 114; 117; 100; 116; 97;   0; 0; 0; 106; 109; 101; 116; 97;   0; 0; 0; 0;
      0; 0; 0; 33; 104; 100; 108; 114;   0; 0; 0; 0;  0; 0; 0; 0;  109; 100; 105; 114;
      0; 0; 0; 0;  0; 0; 0; 0;  0; 0; 0; 0;  0;
      0; 0; 0; 61; 105; 108; 115; 116;
      0; 0; 0; 25; 169; 110; 97; 109;   0; 0; 0; 17; 100; 97; 116; 97;   0; 0; 0; 1;  0; 0; 0; 0;  65;
      0; 0; 0; 28; 99; 111; 118; 114;   0; 0; 0; 20; 100; 97; 116; 97;   0; 0; 0; 14;  0; 0; 0; 0;
      137; 80; 78; 71].
Proof. vm_compute. repeat split; reflexivity. Qed.

(** the same for any known item whose value type is not 0, 1, 13 or 21, e.g. a UTF-16 title (2),
    a year as an unsigned integer (22), a BMP cover (27) *)
Example unknown_value_type_fails_the_file :
  ex18_open (ex18_udta [(cc_nam, iso_item_payload 2 0 [0; 65])]) = Err EData
  /\ ex18_open (ex18_udta [(cc_day, iso_item_payload 22 0 [0; 0; 7; 232])]) = Err EData
  /\ ex18_open (ex18_udta [(cc_covr, iso_item_payload wk_bmp 0 [66; 77])]) = Err EData
  (* while an UNRELATED item may hold anything *)
  /\ ex18_open (ex18_udta [(0xa9746f6f, iso_item_payload 2 0 [0; 65]); (cc_nam, iso_item_payload 1 0 [65])])
     = Ok (Some [65], None, None, None).
Proof. vm_compute. repeat split; reflexivity. Qed.

(** *** REFUTED for the QuickTime form (no version/flags word) when hdlr is not the first child:
    the first word is taken for version/flags, "unsupported version", the whole file fails.
    With hdlr first the same boxes are read. *)
Definition ex18_qt_ilst_first : bytes :=
  iso_box cc_udta (iso_box cc_meta (iso_boxes [(cc_ilst, iso_boxes [(cc_nam, iso_item_payload wk_utf8 0 [65])]);
                                                ex18_hdlr cc_mdir])).
Theorem quicktime_meta_hdlr_not_first_refuted :
  ex18_answers ex18_qt_ilst_first = Err EData
  /\ ex18_open ex18_qt_ilst_first = Err EData
  /\ ex18_open (iso_box cc_udta (iso_box cc_meta (iso_boxes [ex18_hdlr cc_mdir;
                  (cc_ilst, iso_boxes [(cc_nam, iso_item_payload wk_utf8 0 [65])])])))
     = Ok (Some [65], None, None, None)
  /\ ex18_qt_ilst_first =
     [0; 0; 0; 82; 117; 100; 116; 97;   0; 0; 0; 74; 109; 101; 116; 97;
      0; 0; 0; 33; 105; 108; 115; 116;
      0; 0; 0; 25; 169; 110; 97; 109;   0; 0; 0; 17; 100; 97; 116; 97;   0; 0; 0; 1;  0; 0; 0; 0;  65;
      0; 0; 0; 33; 104; 100; 108; 114;   0; 0; 0; 0;  0; 0; 0; 0;  109; 100; 105; 114;
      0; 0; 0; 0;  0; 0; 0; 0;  0; 0; 0; 0;  0].
Proof. vm_compute. repeat split; reflexivity. Qed.

(** the forms of a year *)
Definition ex18_year (ty : N) (v : bytes) := ex18_answers (ex18_udta [(cc_day, iso_item_payload ty 0 v)]).
Example year_forms_example :
  map (fun s => ex18_year 1 (ex18_text s))
      ["2024"; "+2024"; "02024"; "4294967295";
       " 2024"; "2024 "; ""; "+"; "-0"; "2024-05-17"; "2024-05-17T07:00:00Z"; "4294967296"]%string
  = [Ok (None, Some 2024, None, None); Ok (None, Some 2024, None, None); Ok (None, Some 2024, None, None);
     Ok (None, Some 4294967295, None, None);
     Ok (None, None, None, None); Ok (None, None, None, None); Ok (None, None, None, None);
     Ok (None, None, None, None); Ok (None, None, None, None); Ok (None, None, None, None);
     Ok (None, None, None, None); Ok (None, None, None, None)]
  /\ ex18_year 0 [0; 0; 7; 232] = Ok (None, Some 2024, None, None)
  /\ ex18_year 0 [7; 232] = Ok (None, None, None, None)            (* binary, not 4 bytes *)
  /\ ex18_year 0 [0; 0; 0; 7; 232] = Ok (None, None, None, None)
  /\ ex18_year 21 [0; 0; 7; 232] = Ok (None, None, None, None)     (* BE integer type: not reported *)
  /\ ex18_year 13 [0; 0; 7; 232] = Ok (None, None, None, None).
Proof. vm_compute. repeat split; reflexivity. Qed.

(** other edges: a repeated item (the last wins); two 'data' boxes in one item (the last wins);
    an item without a 'data' box, and a meta box without hdlr (errors: the file cannot be opened);
    ill-formed UTF-8 (replaced by U+FFFD); an empty title (reported as the empty string) *)
Example edges_example :
  ex18_answers (ex18_udta [(cc_nam, iso_item_payload 1 0 [65]); (cc_nam, iso_item_payload 1 0 [66])])
  = Ok (Some [66], None, None, None)
  /\ ex18_answers (ex18_udta [(cc_covr, iso_box cc_data (iso_data_payload 13 0 [1])
                                        ++ iso_box cc_data (iso_data_payload 13 0 [2]))])
     = Ok (None, None, Some [2], None)
  /\ ex18_open (ex18_udta [(cc_nam, iso_box 0x6e616d65 [1; 2])]) = Err EData
  /\ ex18_open (iso_box cc_udta (iso_box cc_meta (be 4 0 ++ iso_boxes [(cc_ilst, iso_boxes [])]))) = Err EData
  /\ ex18_answers (ex18_udta [(cc_nam, iso_item_payload 1 0 [65; 255; 66])])
     = Ok (Some [65; 239; 191; 189; 66], None, None, None)
  /\ ex18_answers (ex18_udta [(cc_nam, iso_item_payload 1 0 [])]) = Ok (Some [], None, None, None).
Proof. vm_compute. repeat split; reflexivity. Qed.
