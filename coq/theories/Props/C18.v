(** Property C18 — placeholder until Proofs/MetaProofs.v lands (replaced by the meta worker) *)
From MP4 Require Import Reader.
