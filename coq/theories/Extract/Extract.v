(** Extraction of the executable model, the ISO reference and the oracles to
    OCaml.  Only [ExtrOcamlBasic] is used: bool, option, unit, list, prod,
    sumbool, sumor map to their OCaml counterparts; N, Z, positive, nat,
    string and ascii stay the extracted Coq datatypes. *)
From Coq Require Import Extraction ExtrOcamlBasic.
From MP4 Require Import Types IsoTables Track Writer SampleTable IsoFile Fragment Reader AnyBox WriterMoov.
From MP4 Require Tables.

Extraction Language OCaml.
Cd "../ocaml/extracted".

Extraction "model.ml"
  (* Types.v *)
  boxtype_of_u32 u32_of_boxtype name_of utf8_valid utf8_lossy utf16_units
  fourcc_display fourcc_from_str language_string language_code
  fp8_new fp8_value fp16_new fp16_value fpi8_new fpi8_value
  aot_try_from aot_discr sfi_try_from sfi_discr sfi_freq chan_try_from chan_discr
  datatype_try_from datatype_discr tracktype_of_fourcc tracktype_of_str fourcc_of_tracktype
  mediatype_of_str str_of_mediatype avc_profile_try_from parse_u32 creation_time
  Tables.boxtype_table
  (* IsoTables.v *)
  iso_boxtype_table iso_box_types iso_audio_object_types iso_sample_freq iso_channel_config
  iso_data_type iso_avc_profile iso_handlers iso_media cc
  (* Track.v / SampleTable.v *)
  sample_count sample_size sample_offset sample_time sample_rendering_offset is_sync_sample read_sample
  consistent derive_first_samples spec_offset spec_size spec_delta spec_start spec_cts spec_sync
  run stream_at runm meter0
  (* Writer.v *)
  run_mux mw_write_start run_ops mw_write_end
  (* IsoFile.v *)
  iso_file iso_check_file
  (* Fragment.v *)
  frag_consistent frag_expand
  (* Reader.v *)
  open_fuel open_fragment_fuel track_view rd_get_size rd_major_brand rd_minor_version rd_compatible_brands rd_duration_ms
  rd_timescale rd_is_fragmented rd_sample_count rd_sample_offset rd_read_sample
  mt_track_id mt_track_type mt_media_type mt_box_type mt_width mt_height mt_language mt_timescale mt_duration_us mt_sample_count
  mt_bitrate mt_video_profile mt_sequence_parameter_set mt_picture_parameter_set mt_audio_profile mt_sample_freq_index mt_channel_config
  mt_dec_specific rd_metadata md_title md_year md_poster md_summary show_moov show_ftyp show_moof show_emsg
  (* AnyBox.v *)
  dec_box_any dec_any enc_any size_any type_any show_any struct_name_any wfin wout any_defaults
  (* WriterMoov.v *)
  mux_bytes.
Cd "../../coq".
