(** * ISO/IEC 14496-12 §8.8 movie-fragment semantics (specification, independent of the lookup code)

    A fragmented track's samples are the samples of its track runs, numbered
    1, 2, ... across all track fragments in file order.  For one track
    fragment (tfhd + tfdt + trun, §8.8.7, §8.8.12, §8.8.8):

    - the data of the run starts at  B + data_offset  where  B  is the explicit
      [base_data_offset] of the tfhd when present and otherwise the first byte
      of the enclosing Movie Fragment box (default-base-is-moof), and
      [data_offset] is the signed 32-bit field of the trun (0 when absent);
      the samples of the run are contiguous from there, in order;
    - the decode time of the first sample of the run is the tfdt's
      [baseMediaDecodeTime]; each following sample starts where the previous
      one ends;
    - the duration of a sample is its per-sample [sample_duration] when the
      trun carries them (tr_flags bit 0x000100), otherwise the tfhd's
      [default_sample_duration], otherwise the trex's;
    - the composition offset is the per-sample
      [sample_composition_time_offset] read as a signed 32-bit number
      (version-1 trun), 0 when the trun carries none.

    A track fragment WITHOUT a track run (tfhd [+ tfdt] only; legal, e.g. with
    the tfhd duration-is-empty flag, §8.8.7) defines no samples: the samples of
    the other track fragments are numbered across it.

    Nothing below mentions a lookup function of [Track.v]; only the record
    [fragrun] (the wire fields) is used. *)
From MP4 Require Export Track.
Open Scope list_scope.
Open Scope N_scope.

(** tr_flags 0x000100: sample-duration-present (§8.8.8.1) *)
Definition iso_sample_duration_present : N := 0x100.

Definition run_has_durations (f : fragrun) : bool :=
  negb (N.land (fr_flags f) iso_sample_duration_present =? 0).

(** two's-complement reading of a 32-bit field *)
Definition s32 (c : N) : Z :=
  if c <? 0x80000000 then Z.of_N c else (Z.of_N c - 0x100000000)%Z.

(** where the data of the run starts (may be out of range on a bad file, hence [Z]) *)
Definition run_data_start (f : fragrun) : Z :=
  (Z.of_N (match fr_base_data_offset f with Some b => b | None => fr_moof_offset f end)
   + match fr_data_offset f with Some d => d | None => 0 end)%Z.

Definition run_decode_start (f : fragrun) : N :=
  match fr_tfdt f with Some t => t | None => 0 end.

(** one duration per sample of the run *)
Definition run_durations (f : fragrun) (trex_default : N) : list N :=
  if run_has_durations f then fr_durations f
  else
    let d := match fr_default_duration f with Some d => d | None => trex_default end in
    map (fun _ => d) (fr_sizes f).

(** one composition offset per sample of the run *)
Definition run_cts (f : fragrun) : list Z :=
  match fr_cts f with
  | [] => map (fun _ => 0%Z) (fr_sizes f)
  | l => map s32 l
  end.

(** samples laid out one after the other, in space from [off] and in time from [time] *)
Fixpoint lay_out (off : Z) (time : N) (sizes durs : list N) (cts : list Z)
  : list (Z * N * N * N * Z) :=
  match sizes, durs, cts with
  | sz :: sizes', du :: durs', ct :: cts' =>
      (off, sz, time, du, ct) :: lay_out (off + Z.of_N sz)%Z (time + du) sizes' durs' cts'
  | _, _, _ => []
  end.

Definition run_samples (f : fragrun) (trex_default : N) : list (Z * N * N * N * Z) :=
  lay_out (run_data_start f) (run_decode_start f) (fr_sizes f) (run_durations f trex_default) (run_cts f).

Definition sample_to_N (x : Z * N * N * N * Z) : N * N * N * N * Z :=
  let '(o, s, t, d, c) := x in (Z.to_N o, s, t, d, c).

(** the samples of one track fragment: those of its run; none when it has no run *)
Definition frag_samples (f : fragrun) (trex_default : N) : list (Z * N * N * N * Z) :=
  if fr_has_trun f then run_samples f trex_default else [].

(** (offset, size, start, duration, cts) of every sample of the track, in sample-number order *)
Definition frag_expand (fs : list fragrun) (trex_default : N) : list (N * N * N * N * Z) :=
  flat_map (fun f => map sample_to_N (frag_samples f trex_default)) fs.

(** ** What a well-formed fragmented track looks like *)

Definition all_below (W : N) (l : list N) : bool := forallb (fun x => x <? W) l.

Definition opt_below (W : N) (o : option N) : bool :=
  match o with Some x => x <? W | None => true end.

Definition is_nil {A} (l : list A) : bool := match l with [] => true | _ => false end.

(** the track-fragment header fields (tfhd, tfdt, position of the moof) fit their wire widths *)
Definition header_fits (f : fragrun) : bool :=
  (fr_moof_offset f <? U64)
  && opt_below U64 (fr_base_data_offset f)
  && opt_below U32 (fr_default_duration f)
  && opt_below U64 (fr_tfdt f).

(** a track fragment with a track run *)
Definition with_run_consistent (trex_default : N) (f : fragrun) : bool :=
  (* one size per sample *)
  (lenN (fr_sizes f) =? fr_sample_count f)
  (* per-sample durations exactly when the flag says so *)
  && (if run_has_durations f then lenN (fr_durations f) =? fr_sample_count f
      else is_nil (fr_durations f))
  (* per-sample composition offsets for all samples or for none *)
  && (match fr_cts f with [] => true | l => lenN l =? fr_sample_count f end)
  (* a decode-time box is present *)
  && (match fr_tfdt f with Some _ => true | None => false end)
  (* every field fits its wire width *)
  && header_fits f
  && (fr_flags f <? U24)
  && (fr_sample_count f <? U32)
  && (match fr_data_offset f with Some d => fits_signed 32 d | None => true end)
  && all_below U32 (fr_durations f)
  && all_below U32 (fr_sizes f)
  && all_below U32 (fr_cts f)
  (* every sample offset and start time the semantics defines is a u64 *)
  && forallb (fun x => let '(o, _, t, _, _) := x in
                       (0 <=? o)%Z && (o <? Z.of_N U64)%Z && (t <? U64))
             (run_samples f trex_default).

(** a track fragment without a track run carries no run data (the view of such a traf has
    zero / empty run fields); a decode-time box is not required *)
Definition without_run_consistent (f : fragrun) : bool :=
  (fr_sample_count f =? 0)
  && is_nil (fr_sizes f)
  && is_nil (fr_durations f)
  && is_nil (fr_cts f)
  && (fr_flags f =? 0)
  && (match fr_data_offset f with None => true | Some _ => false end)
  && header_fits f.

Definition run_consistent (trex_default : N) (f : fragrun) : bool :=
  if fr_has_trun f then with_run_consistent trex_default f else without_run_consistent f.

Definition frag_consistent (fs : list fragrun) (trex_default : N) : bool :=
  (trex_default <? U32)
  && forallb (run_consistent trex_default) fs
  (* sample numbers are u32 and 1-based *)
  && (sumN (map fr_sample_count fs) <? U32 - 1).
