(** * ISO/IEC 14496-12 sample-table semantics (specification, independent of the lookup code)

    A track's samples are numbered 1..count.  Chunk c (1-based) holds
    [counts[c-1]] consecutive samples, where the sample-to-chunk runs give the
    per-chunk count: run j applies to chunks [first_chunk_j .. first_chunk_(j+1) - 1]
    (the last run up to the number of chunk offsets).  Sample k lies at
    (offset of its chunk) + (sizes of the earlier samples of that chunk); its
    decode time is the sum of the earlier deltas; its composition offset is
    the k-th of the flattened ctts runs (0 without ctts); it is a sync sample
    iff it is listed in stss (always without stss).

    The specification reads only the wire fields of the tables (never the
    derived [sc_first_sample]). *)
From MP4 Require Export Track.
Open Scope list_scope.
Open Scope N_scope.

Definition sizes_flat (tb : tables) : list N :=
  if 0 <? t_stsz_size tb then repeatN (t_stsz_size tb) (t_stsz_count tb) else t_stsz_sizes tb.

Definition deltas_flat (tb : tables) : list N :=
  flat_map (fun e => repeatN (snd e) (fst e)) (t_stts tb).

Definition cts_flat (tb : tables) : list Z :=
  match t_ctts tb with
  | Some es => flat_map (fun e => repeatN (snd e) (fst e)) es
  | None => repeatN 0%Z (t_stsz_count tb)
  end.

Definition chunk_offsets (tb : tables) : list N :=
  match t_stco tb, t_co64 tb with
  | Some l, _ => l
  | None, Some l => l
  | None, None => []
  end.

(** samples per chunk, one entry per chunk *)
Fixpoint chunk_counts (runs : list stsc_entry) (nchunks : N) : list N :=
  match runs with
  | [] => []
  | e :: t =>
      let stop := match t with [] => nchunks + 1 | e' :: _ => sc_first_chunk e' end in
      repeatN (sc_samples_per_chunk e) (stop - sc_first_chunk e) ++ chunk_counts t nchunks
  end.

(** the chunk holding sample [k], and the number of the first sample of that chunk *)
Fixpoint locate (counts : list N) (c first : N) (k : N) : option (N * N) :=
  match counts with
  | [] => None
  | n :: t => if k <? first + n then Some (c, first) else locate t (c + 1) (first + n) k
  end.

(** 1-based access *)
Definition nth1 {A} (l : list A) (k : N) : option A := if k =? 0 then None else nthN l (k - 1).

Definition sum_range (l : list N) (from to : N) : N :=   (* sizes of samples from .. to-1 (1-based) *)
  sumN (firstn (N.to_nat (to - from)) (skipn (N.to_nat (from - 1)) l)).

Definition spec_offset (tb : tables) (k : N) : option N :=
  match locate (chunk_counts (t_stsc tb) (lenN (chunk_offsets tb))) 1 1 k with
  | Some (c, first) =>
      match nth1 (chunk_offsets tb) c with
      | Some o => Some (o + sum_range (sizes_flat tb) first k)
      | None => None
      end
  | None => None
  end.

Definition spec_size (tb : tables) (k : N) : option N := nth1 (sizes_flat tb) k.
Definition spec_delta (tb : tables) (k : N) : option N := nth1 (deltas_flat tb) k.
Definition spec_start (tb : tables) (k : N) : N := sumN (firstn (N.to_nat (k - 1)) (deltas_flat tb)).
Definition spec_cts (tb : tables) (k : N) : option Z := nth1 (cts_flat tb) k.
Definition spec_sync (tb : tables) (k : N) : bool :=
  match t_stss tb with
  | Some l => existsb (N.eqb k) l
  | None => true
  end.

(** ** Mutual consistency of a table set *)
Fixpoint runs_ok (runs : list stsc_entry) (expect_first : option N) (nchunks : N) : bool :=
  match runs with
  | [] => true
  | e :: t =>
      (match expect_first with Some f => sc_first_chunk e =? f | None => true end)
      && (1 <=? sc_samples_per_chunk e) && (sc_samples_per_chunk e <? U32)
      && (sc_first_chunk e <=? nchunks) && (sc_sample_description_index e <? U32)
      && (match t with
          | [] => true
          | e' :: _ => sc_first_chunk e <? sc_first_chunk e'
          end)
      && runs_ok t None nchunks
  end.

Fixpoint strictly_increasing (prev : N) (l : list N) : bool :=
  match l with
  | [] => true
  | x :: t => (prev <? x) && strictly_increasing x t
  end.

Definition count_of_runs {V} (l : list (N * V)) : N := sumN (map fst l).

(** chunk c occupies [offset_c, offset_c + (sizes of its samples)) within u64 *)
Fixpoint chunks_fit (offs counts : list N) (sizes : list N) : bool :=
  match offs, counts with
  | o :: os, n :: cs =>
      (o + sumN (firstn (N.to_nat n) sizes) <? U64)
      && chunks_fit os cs (skipn (N.to_nat n) sizes)
  | _, _ => true
  end.

Definition consistent (tb : tables) : bool :=
  let n := t_stsz_count tb in
  let offs := chunk_offsets tb in
  let counts := chunk_counts (t_stsc tb) (lenN offs) in
  (n <? U32 - 1)
  && (match t_stco tb, t_co64 tb with None, None => false | _, _ => true end)
  && (lenN offs <? U32 - 1)
  && forallb (fun o => o <? (match t_stco tb with Some _ => U32 | None => U64 end)) offs
  && (match t_stsc tb with [] => (n =? 0) && (lenN offs =? 0) | _ => 1 <=? lenN offs end)
  && runs_ok (t_stsc tb) (Some 1) (lenN offs)
  && (sumN counts =? n)
  && (t_stsz_size tb <? U32)
  && (if 0 <? t_stsz_size tb then true else lenN (t_stsz_sizes tb) =? n)
  && forallb (fun s => s <? U32) (t_stsz_sizes tb)
  && (count_of_runs (t_stts tb) =? n)
  && forallb (fun e => (fst e <? U32) && (snd e <? U32)) (t_stts tb)
  && (match t_ctts tb with
      | Some es => (count_of_runs es =? n) && forallb (fun e => (fst e <? U32) && fits_signed 32 (snd e)) es
      | None => true
      end)
  && (match t_stss tb with
      | Some l => strictly_increasing 0 l && forallb (fun x => x <=? n) l
      | None => true
      end)
  && chunks_fit offs counts (sizes_flat tb).

(** The derived [first_sample] bookkeeping of the stsc decoder (second pass of
    [StscBox::read_box]): checked u32 arithmetic, error on overflow. *)
Fixpoint derive_first_samples (runs : list stsc_entry) (sample_id : N) : option (list stsc_entry) :=
  match runs with
  | [] => Some []
  | e :: t =>
      let e' := mkStsc (sc_first_chunk e) (sc_samples_per_chunk e) (sc_sample_description_index e) sample_id in
      match t with
      | [] => Some [e']
      | nx :: _ =>
          match checked_sub (sc_first_chunk nx) (sc_first_chunk e) with
          | None => None
          | Some d =>
              match checked_mul U32 d (sc_samples_per_chunk e) with
              | None => None
              | Some dm =>
                  match checked_add U32 dm sample_id with
                  | None => None
                  | Some sid' =>
                      match derive_first_samples t sid' with
                      | Some r => Some (e' :: r)
                      | None => None
                      end
                  end
              end
          end
      end
  end.
