"""C09 — sample lookup in fragmented files follows movie-fragment semantics.

proof:           Props/C09.v (frag_lookup_sound, frag_read_sample_sound): for every consistent list of track fragments the lookup model returns what the
                 independent movie-fragment specification (Spec/Fragment.v, from ISO/IEC 14496-12 8.8) defines; unbounded, both build modes
correspondence:  the extracted lookup model (on the fragment runs) and the extracted full reader model vs the real reader
oracle:          the extracted SPECIFICATION frag_expand vs the real reader, both for fragments following the movie header in one stream and for a media
                 segment opened with read_fragment_header against the opened initialization segment
"""
import itertools
import json
import random

import common
import isogen
import readcheck

LEVEL = "proof"
CONE = ["Props/C09.v", "Props/C09Open.v", "Proofs/FragProofs.v", "Proofs/FragFile.v", "Spec/Fragment.v", "Model/Track.v", "Model/Reader.v"]


def gen_movies(rng, tier):
    movies = []
    bases = ["moof", "explicit", "explicit_end"]
    # shape-exhaustive: one track, 1..2 fragments, every flag combination
    for base, tfhd_dur, per_dur, with_cts, tfdt_v, nfr, moof_flag in itertools.product(bases, (None, 33), (False, True), (False, True), (0, 1), (1, 2), (False, True)):
        frags = []
        t = 1000
        for f in range(nfr):
            n = (2, 1)[f] if nfr == 2 else 3
            durs = [7 + j for j in range(n)] if per_dur else None
            frags.append([{"track_id": 1, "base": base, "tfhd_dur": tfhd_dur, "tfdt": t, "tfdt_v": tfdt_v, "durations": durs, "sizes": [3 + j for j in range(n)],
                           "cts": [(-4, 0, 9)[j % 3] for j in range(n)] if with_cts else None, "k0": 1 + 3 * f, "moof_flag": moof_flag}])
            t += sum(durs) if durs else n * (tfhd_dur if tfhd_dur is not None else 50)
        movies.append(([{"id": 1, "kind": "avc", "ts": 1000}], frags, 50))
    # two (three) track fragments of the same track inside one movie fragment, every base mode, with and without a following fragment
    for base, nsame, follow, per_dur in itertools.product(bases, (2, 3), (False, True), (False, True)):
        frags, t, k0 = [[]], 500, 1
        for j in range(nsame):
            n = 2 + (j % 2)
            durs = [5 + j + q for q in range(n)] if per_dur else None
            frags[0].append({"track_id": 1, "base": base, "tfhd_dur": 25, "tfdt": t, "tfdt_v": 0, "durations": durs, "sizes": [2 + j + q for q in range(n)], "cts": None, "k0": k0})
            t += sum(durs) if durs else n * 25
            k0 += n
        if follow:
            frags.append([{"track_id": 1, "base": base, "tfhd_dur": 25, "tfdt": t, "tfdt_v": 0, "durations": None, "sizes": [4, 1], "cts": None, "k0": k0}])
        movies.append(([{"id": 1, "kind": "avc", "ts": 1000}], frags, 50))
    # a track fragment WITHOUT a track run in front of / between fragments that have one
    for base, pos in itertools.product(bases, (0, 1)):
        full = [{"track_id": 1, "base": base, "tfhd_dur": 25, "tfdt": 700 + 50 * j, "tfdt_v": 0, "durations": None, "sizes": [3 + j, 1], "cts": None, "k0": 1 + 2 * j} for j in range(2)]
        empty = {"track_id": 1, "base": base, "tfhd_dur": None, "tfdt": 650, "tfdt_v": 0, "durations": None, "sizes": [], "cts": None, "trun": False}
        seq = [[empty], [full[0]], [full[1]]] if pos == 0 else [[full[0]], [empty], [full[1]]]
        movies.append(([{"id": 1, "kind": "avc", "ts": 1000}], seq, 50))
    # per-sample sizes adding up to 2^32 and more INSIDE one run (offsets are 64-bit sums; the file carries only the first bytes of each sample)
    for base in ("moof", "explicit"):      # (a base at the END of such a run would need a data offset below -2^31)
        for sizes in ([0xC0000000, 0x60000000, 12, 0xFFFFFFF0, 7], [0xFFFFFFFF, 1, 1], [1 << 31, 1 << 31, 5, 6]):
            ctl = {"track_id": 1, "base": base, "tfhd_dur": None, "tfdt": 0, "tfdt_v": 0, "durations": [10, 10], "sizes": [3, 4], "cts": None}
            big = {"track_id": 1, "base": base, "tfhd_dur": 10, "tfdt": 20, "tfdt_v": 0, "durations": None, "sizes": list(sizes), "cts": None, "data_cap": 4, "k0": 3}
            movies.append(([{"id": 1, "kind": "avc", "ts": 1000}], [[ctl], [big]], 50))
    n_rand = 150 if tier == "quick" else 3000
    for _ in range(n_rand):
        ntr = rng.choice([1, 2, 2])
        tracks = [{"id": i + 1, "kind": rng.choice(["avc", "aac", "hevc"]), "ts": rng.choice([1000, 48000])} for i in range(ntr)]
        dflt = rng.choice([0, 1, 40, 1024, 1024, 3000000000, (1 << 32) - 1])
        frags = []
        clock = {t["id"]: rng.choice([0, 5, 1 << 33]) for t in tracks}
        cnt = {t["id"]: 1 for t in tracks}
        # one movie in four: 4-7 movie fragments (run lengths then differ in the middle of the sequence, not only at its ends)
        for f in range(rng.randint(4, 7) if rng.random() < 0.25 else rng.randint(1, 3)):
            fr = []
            chosen = rng.sample(tracks, rng.randint(1, ntr))
            # several track fragments of the same track in one movie fragment (legal: 14496-12 8.8.6), in any position
            while rng.random() < 0.3 and len(chosen) < 4:
                chosen.insert(rng.randint(0, len(chosen)), rng.choice(chosen))
            for t in chosen:
                n = rng.choice([0, 1, 2, 3, 5])
                per = rng.random() < 0.5
                tf = {"track_id": t["id"], "base": rng.choice(bases), "tfhd_dur": rng.choice([None, None, 20, 1001, 0, 0, 1 << 29, 1 << 31, (1 << 32) - 1]), "tfdt": clock[t["id"]],
                      "tfdt_v": 1 if clock[t["id"]] >= (1 << 32) else rng.choice([0, 1]), "durations": [rng.choice([0, 1, 33, 4000]) for _ in range(n)] if per else None,
                      "sizes": [rng.choice([0, 1, 2, 9, 60]) for _ in range(n)], "cts": [rng.choice([0, 7, -7, 2 ** 31 - 1, -2 ** 31]) for _ in range(n)] if rng.random() < 0.5 else None,
                      "with_offset": True, "trun": rng.random() < 0.85, "k0": cnt[t["id"]], "moof_flag": rng.random() < 0.4}
                if not tf["trun"]:
                    # a track fragment without a track run (e.g. tfhd duration-is-empty): contributes no samples
                    n, per = 0, False
                    tf.update({"sizes": [], "durations": None, "cts": None})
                d = sum(tf["durations"]) if per else n * (tf["tfhd_dur"] if tf["tfhd_dur"] is not None else dflt)
                clock[t["id"]] += d
                cnt[t["id"]] += n
                fr.append(tf)
            frags.append(fr)
        movies.append((tracks, frags, dflt))
    return movies


def check(rep):
    proof_ok, details = common.proof_layer(rep, ["C09", "C09Open"], CONE, extra_targets=["theories/Extract/Extract.vo"])
    with common.Lock():
        hb_ok, hb_log = common.harness_build(["run"])
        ob_ok, ob_log = common.ocaml_build()
    if not ob_ok or not hb_ok:
        rep.violation("build", {"kind": "correspondence", "what": "harness or extracted model does not build", "log": (hb_log + ob_log)[-3000:]}, no_input=True)
        return
    rng = random.Random(rep.seed * 7919 + 9)
    movies = gen_movies(rng, rep.tier)
    cases, meta = [], []
    for mi, (tracks, frags, dflt) in enumerate(movies):
        # between the fragments: a free box (mi % 5 == 0), a well-formed event message box in front of every moof (1), or one the library cannot decode
        # (version 2; mi % 5 == 4): the reader may reject such a stream, but if it opens it every lookup must still be right
        extra = [isogen.Box("free", [isogen.Raw(b"pad")])] if mi % 5 == 0 else [isogen.emsg(mi % 2, 1000, 5, 6, 7, b"urn:x", b"v", b"\1\2\3")] if mi % 5 == 1 else \
                [isogen.emsg(2, 1000, 5, 6, 7, b"urn:x", b"v", b"\1\2\3")] if mi % 5 == 4 else []
        may_reject = mi % 5 == 4
        init, fin = isogen.build_fragmented(tracks, frags, trex_dur=dflt, extra_between=extra, large_moof=(mi % 4 == 1), last_mdat_to_eof=(mi % 5 == 2))
        media1, runs1 = fin(len(init))
        cases.append({"data": init + media1})
        meta.append((mi, "single" + ("?" if may_reject else ""), init + media1, runs1, dflt, tracks))
        media2, runs2 = fin(0)
        cases.append({"data": init, "frag": media2})
        meta.append((mi, "segment" + ("?" if may_reject else ""), media2, runs2, dflt, tracks))
    fails, ties = [], []
    stats = {"movies": len(movies), "cases": len(cases), "consistent_runs": 0, "runs": 0, "samples": 0, "model_skipped": 0}
    distinct = set()
    for profile in ("debug", "release"):
        mode = "d" if profile == "debug" else "r"
        res = readcheck.run_both(cases, profile)
        lines, lmeta = [], []
        for ci, (mi, kind, data, runs, dflt, tracks) in enumerate(meta):
            for t in tracks:
                rs = runs.get(t["id"], [])
                if not rs:
                    continue
                n = sum(r["sample_count"] for r in rs)
                lines.append(isogen.fraglookup_line(rs, dflt, list(range(0, n + 3)), mode, data.hex()))
                lmeta.append((ci, t["id"], n, "all"))
                if any(not r["has_trun"] for r in rs):
                    # a track fragment without a track run defines no samples: the SPECIFICATION is evaluated on the fragments that have a run
                    # (Spec/Fragment.v is stated for those), the lookup MODEL on all of them (it mirrors the code's indexing by fragment)
                    lines.append(isogen.fraglookup_line([r for r in rs if r["has_trun"]], dflt, [], mode, data.hex()))
                    lmeta.append((ci, t["id"], n, "with_run"))
        spec_raw = common.model_run(lines)
        specs = {}
        for (ci, tid, n, which), raw in zip(lmeta, spec_raw):
            try:
                j = json.loads(raw)
            except Exception:
                ties.append(("spec_%d" % len(ties), {"kind": "correspondence", "what": "specification driver failed", "raw": raw[:200]}))
                continue
            if which == "all":
                specs[(ci, tid)] = (j, n)
            elif (ci, tid) in specs:
                specs[(ci, tid)][0]["consistent"] = j.get("consistent")
                specs[(ci, tid)][0]["expand"] = j.get("expand")
        for ci, ((mi, kind, data, runs, dflt, tracks), (impl, model)) in enumerate(zip(meta, res)):
            if "dead" in impl:
                fails.append(("dead_%d" % len(fails), {"kind": "input", "what": "worker died", "case": "movie %d %s" % (mi, kind)}))
                continue
            may_reject = kind.endswith("?")
            kind = kind.rstrip("?")
            dump = impl if kind == "single" else impl.get("frag", {})
            okk = impl.get("open") == "ok" and (kind == "single" or impl.get("open_frag") == "ok")
            if not okk and may_reject and "panic" not in (impl.get("open"), impl.get("open_frag")):
                continue
            if not okk:
                fails.append(("open_%s_%d" % (profile, len(fails)), {"kind": "input", "what": "reader rejects a consistent fragmented input (%s / %s)" % (impl.get("open"), impl.get("open_frag")),
                                                                     "case": "movie %d %s" % (mi, kind), "file": cases[ci]["data"].hex(), "frag": cases[ci].get("frag", b"").hex()}))
                continue
            calls = {}
            for k, tid, sid, v in dump.get("calls", []):
                calls.setdefault(tid, {}).setdefault(k, {})[sid] = v
            for t in tracks:
                sp = specs.get((ci, t["id"]))
                if not sp:
                    continue
                spec, n = sp
                if profile == "debug":
                    stats["runs"] += 1
                    stats["consistent_runs"] += 1 if spec.get("consistent") else 0
                    stats["samples"] += n
                    if n:
                        distinct.add(json.dumps(runs[t["id"]], sort_keys=True))
                if not spec.get("consistent"):
                    ties.append(("generator_%d" % len(ties), {"kind": "correspondence", "what": "generated fragment runs are not frag_consistent", "runs": runs[t["id"]]}))
                    continue
                c = calls.get(t["id"], {})
                if c.get("cnt", {}).get(0) != "ok:%d" % n:
                    fails.append(("count_%s_%d" % (profile, len(fails)), {"kind": "input", "what": "sample_count of track %d: expected %d, got %s" % (t["id"], n, c.get("cnt", {}).get(0)),
                                                                          "case": "movie %d %s" % (mi, kind), "file": cases[ci]["data"].hex(), "frag": cases[ci].get("frag", b"").hex()}))
                    continue
                for k in range(0, n + 3):
                    got = c.get("rs", {}).get(k)
                    if got is None:
                        continue
                    if 1 <= k <= n:
                        off, sz, st, du, ct = spec["expand"][k - 1]
                        off, sz, st, du = int(off, 16), int(sz, 16), int(st, 16), int(du, 16)
                        want = {"r": "some", "start": st, "dur": du, "cts": ct, "len": sz, "bytes": data[off:off + sz].hex() if off + sz <= len(data) else None}
                        g = {x: got.get(x) for x in want}
                        if want["bytes"] is None:
                            # the declared sample lies (partly) beyond the bytes the stream carries: the offset is defined, reading must not yield a sample
                            bad = got.get("r") == "some" or c.get("off", {}).get(k) != "ok:%d" % off
                        else:
                            bad = g != want or c.get("off", {}).get(k) != "ok:%d" % off
                        if bad:
                            fails.append(("sample_%s_%d" % (profile, len(fails)), {"kind": "input", "what": "sample %d of track %d differs from the movie-fragment semantics" % (k, t["id"]),
                                                                                   "expected": dict(want, off=off), "observed": dict(g, off=c.get("off", {}).get(k)), "runs": runs[t["id"]],
                                                                                   "case": "movie %d %s" % (mi, kind), "file": cases[ci]["data"].hex(), "frag": cases[ci].get("frag", b"").hex()}))
                            break
                    elif got.get("r") not in ("none", "data"):
                        fails.append(("outside_%s_%d" % (profile, len(fails)), {"kind": "input", "what": "id %d outside 1..=%d yields %s" % (k, n, got.get("r")), "case": "movie %d %s" % (mi, kind)}))
                        break
                # lookup model vs implementation on the same ids
                for e in spec["ids"]:
                    k = int(e["k"], 16)
                    got = c.get("rs", {}).get(k)
                    if got is None:
                        continue
                    mrs = e["rs"]
                    if mrs["r"] == "ok" and mrs["v"] is not None:
                        v = mrs["v"]
                        mm = {"r": "some", "start": int(v["start"], 16), "dur": int(v["dur"], 16), "cts": v["cts"], "sync": v["sync"], "len": len(v["bytes"]) // 2, "bytes": v["bytes"]}
                    else:
                        mm = {"r": "none" if mrs["r"] == "ok" else {"notfound": "data"}.get(mrs["r"], mrs["r"])}
                    if mm != got:
                        ties.append(("lookup_model_%s_%d" % (profile, len(ties)), {"kind": "correspondence", "what": "lookup model and implementation differ on sample %d of track %d" % (k, t["id"]),
                                                                                  "model": mm, "impl": got, "case": "movie %d %s" % (mi, kind)}))
                        break
            t2 = readcheck.correspondence(impl, model)
            if t2 == "skipped":
                stats["model_skipped"] += 1
            elif t2:
                ties.append(("reader_model_%s_%d" % (profile, len(ties)), dict(t2, kind="correspondence", case="movie %d %s" % (mi, kind), file=cases[ci]["data"].hex(), frag=cases[ci].get("frag", b"").hex())))
    rep.coverage.update({"evaluations": 2 * len(cases), "distinct_nontrivial": len(distinct),
                         "rule": "shape-exhaustive one-track movies: base {moof start, explicit base-data-offset, explicit base with negative data offsets} x default-base-is-moof flag set/clear (ignored when an explicit base is present) x tfhd default duration "
                                 "present/absent x per-sample durations present/absent x composition offsets present/absent x tfdt version 0/1 x 1-2 fragments; 2-3 track fragments of one track inside one movie fragment x base mode x following fragment; plus seeded random movies "
                                 "(1-2 tracks, 1-3 fragments, repeated tracks inside a fragment, track fragments without a run, 64-bit moof headers, a last media data box of size 0 (to the end of the file), 0-5 samples per run, empty runs, 64-bit decode times, free boxes between fragments); each as one stream and as "
                                 "init segment + media segment (read_fragment_header); debug and release; non-trivial = distinct run lists with at least one sample",
                         "input_distribution": stats})
    rep.coverage["samples"] = [{"runs": meta[0][3]}, {"runs": meta[len(meta) // 2][3]}]
    rep.assumptions = ["gen/isogen.build_fragmented renders the runs faithfully (a slip shows as a failing case)", "harness/run is the compiled /repo library",
                       "the sync flag of fragmented samples is not part of C09"]
    known = [f for f in common.known_findings() if f["property"] == "C09" and f["status"] == "known"]
    # D72: one trex box per track with DIFFERENT default durations, runs that rely on the movie-level default
    tracks2 = [{"id": 1, "kind": "avc", "ts": 1000}, {"id": 2, "kind": "aac", "ts": 48000}]
    frags2 = [[{"track_id": 1, "base": "moof", "tfhd_dur": None, "tfdt": 0, "durations": None, "sizes": [2, 2], "cts": None},
               {"track_id": 2, "base": "moof", "tfhd_dur": None, "tfdt": 0, "durations": None, "sizes": [1, 1], "cts": None}]]
    init2, fin2 = isogen.build_fragmented(tracks2, frags2, trex_durs={1: 40, 2: 1024})
    media2, _ = fin2(len(init2))
    (impl2, _), = readcheck.run_both([{"data": init2 + media2}], "debug", want_model=False)
    durs = {tid: [v.get("dur") for k, t, s, v in impl2.get("calls", []) if k == "rs" and t == tid and isinstance(v, dict) and v.get("r") == "some"] for tid in (1, 2)}
    if durs != {1: [40, 40], 2: [1024, 1024]}:
        what = "with one trex per track (defaults 40 and 1024) the reader reports durations %s" % json.dumps(durs)
        if any(k["id"] == "D72" for k in known):
            rep.known("D72", what)
        else:
            fails.append(("multi_trex", {"kind": "input", "what": what, "file": (init2 + media2).hex()}))
    # D94: two track runs (trun) in ONE track fragment — ISO/IEC 14496-12 8.8.8 allows any number; samples are numbered across the runs
    sizesA, sizesB = [2, 2], [3, 3, 3]
    tr1 = [{"id": 1, "kind": "avc", "ts": 1000}]
    init3, _ = isogen.build_fragmented(tr1, [], trex_dur=50)

    def two_runs(offA, offB):
        return isogen.Box("moof", [isogen.mfhd(1), isogen.Box("traf", [isogen.tfhd(1, None, None, 25, extra_flags=isogen.TFHD_MOOF), isogen.tfdt(1000),
                                                                        isogen.trun(2, offA, None, None, sizesA), isogen.trun(3, offB, None, None, sizesB)])])
    mlen = len(isogen.render([two_runs(0, 0)]).data)
    payload3 = b"".join(isogen.sample_bytes(1, k + 1, n) for k, n in enumerate(sizesA + sizesB))
    seg3 = bytes(isogen.render([two_runs(mlen + 8, mlen + 8 + sum(sizesA)), isogen.Box("mdat", [isogen.Raw(payload3)])]).data)
    (impl3, _), = readcheck.run_both([{"data": init3 + seg3}], "debug", want_model=False)
    got3 = [v for k, t, s_, v in impl3.get("calls", []) if k == "rs" and t == 1 and isinstance(v, dict) and v.get("r") == "some"]
    want3, pos3 = [], 0
    for k, n in enumerate(sizesA + sizesB):
        want3.append({"start": 1000 + 25 * k, "dur": 25, "len": n, "bytes": payload3[pos3:pos3 + n].hex()})
        pos3 += n
    if [{x: g.get(x) for x in ("start", "dur", "len", "bytes")} for g in got3] != want3:
        what = "a track fragment with two track runs (2 + 3 samples): the reader returns %d samples (sizes %s), the runs define 5" % (len(got3), [g.get("len") for g in got3])
        if any(k["id"] == "D94" for k in known):
            rep.known("D94", what)
        else:
            fails.append(("two_truns", {"kind": "input", "what": what, "file": (init3 + seg3).hex(), "expected": want3, "observed": got3}))
    for name, payload in fails[:5]:
        rep.violation(name, payload)
    if fails:
        return
    if not proof_ok:
        rep.violation("proof_obligation", {"kind": "obligation", "what": "Props/C09 no longer checks", "details": details, "searched": "%d fragmented inputs: all samples as specified" % len(cases)}, no_input=True)
        return
    for name, payload in ties[:5]:
        payload["searched"] = "%d fragmented inputs: all samples as specified" % len(cases)
        rep.violation(name, payload, no_input=True)
