"""Shared machinery of the muxer properties (C01, C02, C13, C14, C17):
run histories on the real muxer (harness `run`, cmd mux) and on the extracted Coq model (driver `mux`),
parse the real output with the extracted independent ISO parser (driver `isofile`), and compare."""
import json

import common
import muxgen

U32 = 1 << 32


def h2i(x):
    return int(x, 16)


def run_all(hs, profile, want_iso=True, extra=None):
    """returns list of dicts {h, impl, model, iso} for the given build profile ('debug'|'release')"""
    mode = "d" if profile == "debug" else "r"
    extra = extra or {}
    impl_lines = [json.dumps(muxgen.to_harness(h, bytes=True, **extra)) for h in hs]
    impl_raw = common.harness_run("run", profile, impl_lines)
    model_raw = common.model_run([muxgen.to_model(h, mode) for h in hs])
    res = []
    iso_lines = []
    iso_idx = []
    for i, h in enumerate(hs):
        try:
            impl = json.loads(impl_raw[i])
        except Exception:
            impl = {"error": impl_raw[i]}
        try:
            model = json.loads(model_raw[i])
        except Exception:
            model = {"error": model_raw[i]}
        res.append({"h": h, "impl": impl, "model": model, "iso": None})
        if want_iso and impl.get("end") == "ok" and "out" in impl:
            tracks, _ = muxgen.spec(h)
            exp = ",".join("%x:%x" % (len(t["samples"]), sum(s[0] for s in t["samples"])) for t in tracks) or "-"
            iso_lines.append("isofile %x %s %s" % (h.get("base", 0), impl["out"] or "-", exp))
            iso_idx.append(i)
    if iso_lines:
        iso_raw = common.model_run(iso_lines)
        for i, r in zip(iso_idx, iso_raw):
            try:
                res[i]["iso"] = json.loads(r)
            except Exception:
                res[i]["iso"] = {"error": r}
    return res


def norm_tables(t):
    """tables as printed by the driver -> comparable python value (ints)"""
    if t is None:
        return None
    return {
        "stsc": [[h2i(a), h2i(b), h2i(c)] for a, b, c in t["stsc"]],
        "stsz": [h2i(t["stsz"][0]), h2i(t["stsz"][1]), [h2i(x) for x in t["stsz"][2]]],
        "stco": None if t["stco"] is None else [h2i(x) for x in t["stco"]],
        "co64": None if t["co64"] is None else [h2i(x) for x in t["co64"]],
        "stts": [[h2i(a), h2i(b)] for a, b in t["stts"]],
        "ctts": None if t["ctts"] is None else [[h2i(a), b] for a, b in t["ctts"]],
        "stss": None if t["stss"] is None else [h2i(x) for x in t["stss"]],
    }


def correspondence(r):
    """level B: the model's run of the history vs the real muxer. Returns None or a description."""
    impl, model, h = r["impl"], r["model"], r["h"]
    if "error" in impl:
        return {"what": "harness produced no result", "impl": impl}
    if "error" in model:
        return {"what": "model driver produced no result", "model": model}
    ist = impl.get("statuses", [])
    if model["r"] == "panic":
        if "panic" in ist or impl.get("end") == "panic":
            return None
        return {"what": "model predicts a panic, implementation does not panic", "site": model.get("site"), "impl_statuses": ist, "impl_end": impl.get("end")}
    if "panic" in ist or impl.get("end") == "panic":
        return {"what": "implementation panics, model does not", "impl_statuses": ist, "impl_end": impl.get("end"), "model": model["r"]}
    if model["r"] != "ok":
        if impl.get("end") == model["r"]:
            return None
        return {"what": "write_end outcome differs", "model": model["r"], "impl_end": impl.get("end")}
    mv = model["v"]
    if mv["st"] != ist:
        return {"what": "per-call outcome classes differ", "model": mv["st"], "impl": ist}
    if impl.get("end") != "ok":
        return {"what": "write_end outcome differs", "model": "ok", "impl_end": impl.get("end")}
    out = impl.get("out", "")
    pre = mv["out"]
    if out[:len(pre)] != pre:
        k = next((i for i in range(0, min(len(out), len(pre)), 2) if out[i:i + 2] != pre[i:i + 2]), min(len(out), len(pre)))
        return {"what": "bytes before moov differ (ftyp / mdat header / payload order)", "first_diff_byte": k // 2,
                "model": pre[max(0, k - 16):k + 32], "impl": out[max(0, k - 16):k + 32]}
    full = model.get("full") or {}
    if full.get("r") == "ok":
        fb = full["bytes"]
        if fb != out:
            k = next((i for i in range(0, min(len(out), len(fb)), 2) if out[i:i + 2] != fb[i:i + 2]), min(len(out), len(fb)))
            return {"what": "the complete output differs from the model's bytes (mux_bytes: Writer.v + WriterMoov.v + box encoders) at byte %d of %d/%d" % (k // 2, len(fb) // 2, len(out) // 2),
                    "model": fb[max(0, k - 16):k + 48], "impl": out[max(0, k - 16):k + 48]}
    elif full.get("r") in ("panic", "err"):
        return {"what": "the model's moov construction/encoding ends in %s (%s), the implementation wrote a file" % (full.get("r"), full.get("site"))}
    iso = r["iso"]
    if iso is None or not iso.get("parse"):
        return {"what": "independent parser cannot read the real output", "iso": iso}
    if [h2i(x) for x in iso["mvhd"]] != [h2i(mv["mvhd"][2]), h2i(mv["mvhd"][0]), h2i(mv["mvhd"][1])]:
        return {"what": "mvhd version/timescale/duration differ", "model[ts,dur,ver]": mv["mvhd"], "impl[ver,ts,dur]": iso["mvhd"]}
    if len(iso["mdat"]) != 1 or h2i(iso["mdat"][0][0]) != h2i(mv["mdat_pos"]) or h2i(iso["mdat"][0][2]) != h2i(mv["mdat_size"]):
        return {"what": "mdat position/size differ", "model": [mv["mdat_pos"], mv["mdat_size"]], "impl": iso["mdat"]}
    if len(iso["tracks"]) != len(mv["tracks"]):
        return {"what": "number of tracks differs", "model": len(mv["tracks"]), "impl": len(iso["tracks"])}
    for mt, it in zip(mv["tracks"], iso["tracks"]):
        a, b = norm_tables(mt["tables"]), norm_tables(it["tables"])
        if a != b:
            key = next(k for k in a if a[k] != b[k])
            return {"what": "sample table %s of track %s differs" % (key, mt["id"]), "model": a[key], "impl": b[key]}
        hdr = [h2i(x) for x in mt["hdr"]]
        ih = [h2i(it["mdhd"][2]), h2i(it["mdhd"][0]), h2i(it["tkhd"][1]), h2i(it["tkhd"][0])]
        if hdr != ih:
            return {"what": "mdhd/tkhd duration or version of track %s differs" % mt["id"], "model[mdhd_dur,mdhd_ver,tkhd_dur,tkhd_ver]": hdr, "impl": ih}
    return None


# ---------------------------------------------------------------- oracles on the implementation
def calls_by_track(rb):
    d = {}
    for kind, tid, sid, v in rb.get("calls", []):
        d.setdefault(tid, {}).setdefault(kind, {})[sid] = v
    return d


def oracle_c01(r):
    """level A: read-back samples vs the accepted history. Returns None or a description of the failing input."""
    h, impl = r["h"], r["impl"]
    tracks, status = muxgen.spec(h)
    if impl.get("statuses") != status:
        # accepted/rejected classification is part of C01 only for calls the specification rejects (unknown ids)
        for i, (a, b) in enumerate(zip(impl.get("statuses", []), status)):
            if a != b:
                return {"what": "call %d: muxer returned %s, specification says %s" % (i, a, b), "op": h["ops"][i]}
    if impl.get("end") != "ok":
        return {"what": "write_end failed on an accepted history", "end": impl.get("end")}
    rb = impl.get("readback", {})
    if rb.get("open") != "ok":
        return {"what": "reader cannot open the muxed output", "open": rb.get("open")}
    ids = sorted(t["id"] for t in rb["tracks"])
    if ids != list(range(1, len(tracks) + 1)):
        return {"what": "track ids differ", "expected": list(range(1, len(tracks) + 1)), "observed": ids}
    calls = calls_by_track(rb)
    for ti, t in enumerate(tracks, start=1):
        n = len(t["samples"])
        c = calls.get(ti, {})
        if c.get("cnt", {}).get(0) != "ok:%d" % n:
            return {"what": "sample_count of track %d" % ti, "expected": n, "observed": c.get("cnt", {}).get(0)}
        start = 0
        for k, (d, o, s, b) in enumerate(t["samples"], start=1):
            got = c.get("rs", {}).get(k)
            if got is None:
                break  # beyond the number of samples the harness reads back
            exp = {"r": "some", "start": start, "dur": d, "cts": o, "sync": s, "len": muxgen.blob_len(b), "bytes": muxgen.blob_bytes(b).hex()}
            if got != exp:
                diff = [key for key in exp if got.get(key) != exp[key]]
                return {"what": "sample %d of track %d read back differently (%s)" % (k, ti, ",".join(diff)),
                        "expected": {x: exp[x] for x in diff}, "observed": {x: got.get(x) for x in diff}}
            start += d
        for k, got in c.get("rs", {}).items():
            if (k == 0 or k > n) and got.get("r") not in ("none", "data"):
                return {"what": "sample id %d of track %d (count %d) yields %s" % (k, ti, n, got.get("r")), "observed": got}
    return None


def oracle_c02(r):
    iso = r["iso"]
    if r["impl"].get("end") != "ok":
        return None
    if iso is None or "error" in iso:
        return {"what": "independent parser crashed", "iso": iso}
    if not iso.get("parse"):
        return {"what": "the independent ISO-BMFF parser rejects the muxer's output (boxes do not tile, container size mismatch, or a table is malformed)"}
    if not iso.get("check"):
        return {"what": "iso_check_file = false: the output violates a cross-table consistency rule", "tracks": iso.get("tracks"), "mvhd": iso.get("mvhd"), "mdat": iso.get("mdat")}
    return None


MEDIA = {"avc": ("H264", "avc1"), "hevc": ("H265", "hev1"), "vp9": ("VP9", "vp09"), "aac": ("AAC", "mp4a"), "ttxt": ("TTXT", "tx3g")}


def in_c14_domain(conf):
    lang = bytes.fromhex(conf["lang"])
    return len(lang) == 3 and all(97 <= c <= 122 for c in lang)


def oracle_c14(r, known_aot_escape=True):
    """configuration round trip; returns (failure|None, list of known-finding notes)"""
    h, impl = r["h"], r["impl"]
    tracks, status = muxgen.spec(h)
    notes = []
    if impl.get("end") != "ok":
        return None, notes
    rb = impl.get("readback", {})
    if rb.get("open") != "ok":
        return {"what": "reader cannot open the muxed output", "open": rb.get("open")}, notes
    cfg = h["cfg"]
    acc = rb["acc"]
    exp_acc = {"major": cfg["major"], "minor": cfg["minor"], "brands": cfg["brands"], "timescale": cfg["timescale"]}
    for k, v in exp_acc.items():
        if acc.get(k) != v:
            return {"what": "file-level %s" % k, "expected": v, "observed": acc.get(k)}, notes
    aot = {n: v for v, n in muxgen.tables()["enums"]["AudioObjectType"]["tryfrom"]}
    longest = 0
    for ti, (t, rt) in enumerate(zip(tracks, sorted(rb["tracks"], key=lambda x: x["id"])), start=1):
        c = t["conf"]
        total = sum(s[0] for s in t["samples"])
        exp = {"type": "ok:" + c["tt"], "media": "ok:" + MEDIA[c["kind"]][0], "box": "ok:%d" % muxgen.fourcc(MEDIA[c["kind"]][1]), "ts": c["ts"],
               "mdhd_duration": total}
        if in_c14_domain(c):
            exp["lang"] = c["lang"]
        if c["kind"] in ("avc", "hevc", "vp9"):
            exp["w"], exp["h"] = c["w"], c["h"]
        if c["kind"] == "avc":
            sps = bytes.fromhex(c["sps"])
            exp["sps"] = 'ok:"%s"' % c["sps"]
            if c["pps"]:
                exp["pps"] = 'ok:"%s"' % c["pps"]
            exp["avcc"] = {"profile": sps[1], "compat": sps[2], "level": sps[3], "nsps": 1, "npps": 1}
        if c["kind"] == "aac":
            exp["bitrate"] = c["bitrate"]
            exp["sfi"] = "ok:" + c["freq_index"]
            exp["chan"] = "ok:" + c["chan_conf"]
            exp["aprofile"] = "ok:" + c["profile"]
        for k, v in exp.items():
            if rt.get(k) != v:
                if k == "aprofile" and aot[c["profile"]] >= 32 and known_aot_escape:
                    notes.append("D80 AAC object type %s (%d >= 32) written without the escape code reads back as %s" % (c["profile"], aot[c["profile"]], rt.get(k)))
                    continue
                return {"what": "track %d: %s" % (ti, k), "expected": v, "observed": rt.get(k), "conf": c}, notes
        # durations: converted to the movie timescale, within one tick
        td = rt["tkhd_duration"]
        exact_num = total * cfg["timescale"]
        if exact_num // c["ts"] < (1 << 64) - 1:
            if not (td * c["ts"] <= exact_num + c["ts"] and exact_num <= (td + 1) * c["ts"]):
                return {"what": "track %d duration in movie timescale" % ti, "expected": exact_num / c["ts"], "observed": td}, notes
        # reported Duration accessors (microseconds, floor)
        if rt.get("dur_us") != min(total * 1000000 // c["ts"], (1 << 64) - 1):
            return {"what": "track %d duration() accessor" % ti, "expected_us": total * 1000000 // c["ts"], "observed": rt.get("dur_us")}, notes
        longest = max(longest, td)
    if acc["mvhd_duration"] != longest:
        return {"what": "movie duration is not the longest track duration", "expected": longest, "observed": acc["mvhd_duration"]}, notes
    return None, notes


# ---------------------------------------------------------------- common check driver for the muxer properties
def build(rep, bins=("run",)):
    with common.Lock():
        hb_ok, hb_log = common.harness_build(list(bins))
        ob_ok, ob_log = common.ocaml_build()
    if not ob_ok:
        rep.violation("model_build", {"kind": "obligation", "what": "extracted model does not build", "log": ob_log[-2000:]}, no_input=True)
        return False
    if not hb_ok:
        rep.violation("harness_build", {"kind": "correspondence", "what": "harness does not compile against /repo", "log": hb_log[-3000:]}, no_input=True)
        return False
    return True


def history_stats(hs):
    stats = {"histories": len(hs), "tracks": 0, "samples": 0, "rejected_calls": 0, "kinds": {}, "with_base": 0}
    distinct = set()
    for h in hs:
        tracks, st = muxgen.spec(h)
        stats["tracks"] += len(tracks)
        stats["samples"] += sum(len(t["samples"]) for t in tracks)
        stats["rejected_calls"] += st.count("data")
        stats["with_base"] += 1 if h.get("base") else 0
        for t in tracks:
            stats["kinds"][t["conf"]["kind"]] = stats["kinds"].get(t["conf"]["kind"], 0) + 1
        if any(t["samples"] for t in tracks):
            distinct.add(json.dumps(h, sort_keys=True))
    return stats, len(distinct)


def run_property(rep, prop, cone, hs, oracles, rule, tie=True, profiles=("debug", "release"), known_match=None, modules=None):
    """oracles: list of functions r -> failure|None (or (failure, notes)); returns nothing, fills rep."""
    proof_ok, details = common.proof_layer(rep, modules or prop, cone, extra_targets=["theories/Extract/Extract.vo"])
    if not build(rep):
        return
    fails, ties, notes = [], [], []
    for profile in profiles:
        res = run_all(hs, profile)
        for i, r in enumerate(res):
            for orc in oracles:
                f = orc(r)
                if isinstance(f, tuple):
                    f, ns = f
                    notes.extend(ns)
                if f:
                    fails.append(("%s_%s_%d" % (orc.__name__, profile, i), dict(f, kind="input", profile=profile, history=r["h"])))
            if tie:
                t = correspondence(r)
                if t:
                    ties.append(("model_vs_impl_%s_%d" % (profile, i), dict(t, kind="correspondence", profile=profile, history=r["h"])))
    stats, distinct = history_stats(hs)
    rep.coverage.update({"evaluations": len(profiles) * len(hs), "distinct_nontrivial": distinct, "rule": rule, "input_distribution": stats})
    rep.coverage["samples"] = [hs[min(7, len(hs) - 1)], hs[len(hs) // 2]]
    rep.assumptions = ["harness/run is the compiled /repo library (debug and release profiles)", "ocaml/driver.ml glue",
                       "muxgen.spec (accepted-history oracle) is list manipulation", "Iso/IsoFile.v was written correctly from ISO/IEC 14496-12"]
    known = [f for f in common.known_findings() if f["property"] == prop and f["status"] == "known"]
    seen = set()
    for n in notes:
        fid = n.split(" ")[0]
        k = next((f for f in known if f["id"] == fid), None)
        if k is None:
            fails.append(("unlisted_" + fid, {"kind": "input", "what": n}))
        elif fid not in seen:
            seen.add(fid)
            rep.known(fid, n)
    for name, payload in fails[:5]:
        rep.violation(name, payload)
    if fails:
        return
    if not proof_ok:
        rep.violation("proof_obligation", {"kind": "obligation", "what": "Props/%s no longer checks" % prop, "details": details,
                                           "searched": "%d histories x %d profiles on the real muxer+reader: no failing input" % (len(hs), len(profiles))}, no_input=True)
        return
    for name, payload in ties[:5]:
        payload["searched"] = "%d histories x %d profiles: the property's oracle found no failing input" % (len(hs), len(profiles))
        rep.violation(name, payload, no_input=True)
