"""C14 — track and movie configuration survives mux -> demux.

proof:           Props/C14.v (configuration fields of the writer model reach the final track record unchanged; language packing; duration conversion);
                 Props/C01Open.v (conf_survives: every accessor of the reader opened on the muxer's bytes returns the configuration)
correspondence:  extracted Writer model vs the real Mp4Writer
oracle:          reader accessors on the real muxer's output vs the configuration passed in
"""
import itertools
import random

import muxcheck
import muxgen

LEVEL = "proof"
CONE = ["Props/C14.v", "Props/C01Open.v", "Props/C13Open.v", "Proofs/MuxOpenBase.v", "Proofs/MuxTotal.v", "Proofs/MuxMoovConf.v", "Proofs/MuxOpen.v", "Model/Writer.v", "Model/WriterMoov.v", "Model/Reader.v"]


def config_histories(tier, rng):
    hs = []
    U32 = 1 << 32
    samples = [{"w": [1, 1000, 0, True, "aabb"]}, {"w": [1, 999, 0, False, "cc"]}]
    # every AAC triple (exhaustive over the three enumerations)
    aots, sfis, chans = muxgen.enum_names("AudioObjectType"), muxgen.enum_names("SampleFreqIndex"), muxgen.enum_names("ChannelConfig")
    triples = list(itertools.product(aots, sfis, chans))
    if tier == "quick":
        triples = [t for i, t in enumerate(triples) if i % 7 == 0] + [(a, sfis[0], chans[0]) for a in aots]
    for a, f, c in triples:
        hs.append({"base": 0, "cfg": muxgen.DEFAULT_CFG, "ops": [{"add": muxgen.tc("aac", ts=48000, profile=a, freq_index=f, chan_conf=c, bitrate=rng.choice([0, 96000, U32 - 1]))}] + samples})
    # video kinds x boundary dimensions x parameter-set lengths
    for kind in ("avc", "hevc", "vp9"):
        for w, h in itertools.product([0, 1, 1920, 65535], [0, 1, 1080, 65535]):
            kw = {"w": w, "h": h}
            if kind == "avc":
                for n in (4, 5, 255, 65535):
                    sps = bytes(rng.randrange(256) for _ in range(n)).hex()
                    pps = bytes(rng.randrange(256) for _ in range(rng.choice([1, 4, 255, 65535]))).hex()
                    hs.append({"base": 0, "cfg": muxgen.DEFAULT_CFG, "ops": [{"add": muxgen.tc(kind, sps=sps, pps=pps, **kw)}] + samples})
                    if tier == "quick":
                        break
            else:
                hs.append({"base": 0, "cfg": muxgen.DEFAULT_CFG, "ops": [{"add": muxgen.tc(kind, **kw)}] + samples})
    # the configured track KIND is independent of the codec: every kind with every codec, in one movie and alone
    combos = [(k, tt) for k in ("avc", "hevc", "vp9", "aac", "ttxt") for tt in ("Video", "Audio", "Subtitle")]
    hs.append({"base": 0, "cfg": muxgen.DEFAULT_CFG, "ops": [{"add": muxgen.tc(k, tt=tt)} for k, tt in combos] + [{"w": [i + 1, 100, 0, True, "aa%02x" % i]} for i in range(len(combos))]})
    for k, tt in combos:
        hs.append({"base": 0, "cfg": muxgen.DEFAULT_CFG, "ops": [{"add": muxgen.tc(k, tt=tt)}] + samples})
    # long parameter sets (each at most 65535 bytes; together around and beyond 65536: any 16-bit arithmetic on their combined length shows here)
    for ns, npp in ((40000, 30000), (65535, 4), (65535, 65535), (4, 65535), (32768, 32765), (32768, 32764), (255, 255)):
        sps = bytes([0x67] + [(j * 7 + ns) & 255 for j in range(ns - 1)]).hex()
        pps = bytes([0x68] + [(j * 5 + npp) & 255 for j in range(npp - 1)]).hex()
        hs.append({"base": 0, "cfg": muxgen.DEFAULT_CFG, "ops": [{"add": muxgen.tc("avc", sps=sps, pps=pps)}] + samples})
    # parameter sets that look like Annex B byte streams (start codes, emulation prevention): they are opaque bytes to the muxer
    ps = muxgen.structured_param_sets()
    for i, sps in enumerate(ps):
        hs.append({"base": 0, "cfg": muxgen.DEFAULT_CFG, "ops": [{"add": muxgen.tc("avc", sps=sps, pps=ps[(i * 5 + 3) % len(ps)])}] + samples})
    # languages, timescales, brands
    langs = [b"und", b"eng", b"aaa", b"zzz", b"qaz"] + [bytes(rng.choice(b"abcdefghijklmnopqrstuvwxyz") for _ in range(3)) for _ in range(20)]
    for lang in langs:
        ts = rng.choice([1, 25, 1000, 90000, U32 - 1])
        cfg = {"major": rng.randrange(U32), "minor": rng.randrange(U32), "brands": [rng.randrange(U32) for _ in range(rng.randint(0, 6))],
               "timescale": rng.choice([1, 1000, 600, U32 - 1])}
        kind = rng.choice(muxgen.KINDS)
        hs.append({"base": 0, "cfg": cfg, "ops": [{"add": muxgen.tc(kind, ts=ts, lang=lang)}] + [{"w": [1, d, 0, True, "aa"]} for d in (ts, 1, min(U32 - 1, ts * 3))]})
    # summed durations crossing 2^32 exactly at the last sample (media, track and movie units); empty brand list
    for kind in muxgen.KINDS:
        for tts, mts in ((1000, 1000), (1000, 90000), (90000, 1000), (1, 3)):
            for first, last in ((U32 - 11, 1024), (U32 - 1, 1), (U32 - 1, 0), (1 << 31, 1 << 31)):
                hs.append({"base": 0, "cfg": dict(muxgen.DEFAULT_CFG, timescale=mts, brands=[] if kind == "ttxt" else muxgen.DEFAULT_CFG["brands"]),
                           "ops": [{"add": muxgen.tc(kind, ts=tts)}, {"w": [1, first, 0, True, "aa"]}, {"w": [1, last, 0, False, "bb"]}]})
    hs.append({"base": 0, "cfg": {"major": muxgen.fourcc("isom"), "minor": 0, "brands": [], "timescale": 1000}, "ops": [{"add": muxgen.tc("avc")}] + samples})
    # several tracks whose durations cross 2^32 movie ticks in different positions of the track list; repeated brands
    for order in ((5000000, 10), (10, 5000000), (10, 5000000, 20), (5000000, 4999999)):
        ops = [{"add": muxgen.tc("ttxt", ts=1)} for _ in order]
        for ti, d in enumerate(order):
            ops.append({"w": [ti + 1, d, 0, True, "aa"]})
        hs.append({"base": 0, "cfg": dict(muxgen.DEFAULT_CFG, timescale=1000), "ops": ops})
    isom, iso2, mp41 = muxgen.fourcc("isom"), muxgen.fourcc("iso2"), muxgen.fourcc("mp41")
    for brands in ([isom, iso2, isom, mp41], [isom, isom], [iso2, mp41, mp41, iso2, iso2]):
        hs.append({"base": 0, "cfg": {"major": isom, "minor": 512, "brands": brands, "timescale": 1000}, "ops": [{"add": muxgen.tc("avc")}] + samples})
    # several tracks: the movie duration is the longest
    for _ in range(40 if tier == "quick" else 400):
        hs.append(muxgen.random_history(rng, bad=0.0, max_samples=40))
    return hs


def check(rep):
    rng = random.Random(rep.seed * 7919 + 14)
    hs = config_histories(rep.tier, rng)
    muxcheck.run_property(rep, "C14", CONE, hs, [muxcheck.oracle_c14],
                          "all AAC object type x frequency index x channel layout triples (thinned in the quick tier), video kinds x boundary dimensions x "
                          "parameter-set lengths {4,5,255,65535}, 25 three-letter languages x timescales x random brand lists, random multi-track histories; "
                          "every reader accessor compared with the configuration; debug and release", modules=["C14", "C01Open", "C13Open"])
