"""C06 — the reader API never panics or aborts, whatever the input.

proof:           Props/C06.v: no-panic Hoare triples for every decoder and the reader (both build modes), for all byte strings
correspondence:  the extracted reader model vs the real Mp4Reader on structure-aware mutations (outcome class incl. panic, every accessor,
                 every sample call) — this is where the model's panic predictions are checked against the code
oracle:          catch_unwind around every public read-side call (open, open fragment, all accessors, sample_offset/read_sample for ids 0..n+2
                 and huge ids, to_json/summary of every parsed box) in the debug (overflow-checked) and release (wrapping) profiles;
                 worker exit status for aborts / stack overflow
"""
import random

import common
import readcheck

LEVEL = "proof"
CONE = ["Props/C06.v", "Base/Hoare.v", "Proofs/SafeLeaf.v", "Proofs/SafeLeaf1.v", "Proofs/SafeLeaf2.v", "Proofs/SafeLeaf3.v", "Proofs/SafeLeaf4.v", "Proofs/SafeLoop.v", "Proofs/SafeValues.v", "Proofs/SafeContainers.v", "Proofs/SafeContainers2.v", "Proofs/SafeLookup.v", "Proofs/SafeReader.v"]


def corpus(rep):
    rng = random.Random(rep.seed * 7919 + 6)
    quick = rep.tier == "quick"
    cases = []   # (label, dict)
    seeds = readcheck.canned()
    init = next(d for n, d in seeds if n == "minimal_init.mp4")
    frag = next(d for n, d in seeds if n == "minimal_fragment.m4s")
    for n, d in seeds:
        cases.append((n, {"data": d}))
    cases.append(("init+frag", {"data": init, "frag": frag}))
    gens = readcheck.valid_files(rng, 8 if quick else 40)
    for name, r, _ in gens:
        data = bytes(r.data)
        cases.append((name, {"data": data}))
        for lab, m in readcheck.field_mutations(r, rng, per_field=3 if quick else None):
            cases.append((name + ":" + lab, {"data": m}))
        for lab, m in readcheck.pair_mutations(r, rng, 60 if quick else 600):
            cases.append((name + ":" + lab, {"data": m}))
        for lab, m in readcheck.truncations(data, 5 if quick else 1):
            cases.append((name + ":" + lab, {"data": m}))
        for lab, m in readcheck.havoc(data, rng, 40 if quick else 400):
            cases.append((name + ":" + lab, {"data": m}))
        for lab, m in readcheck.retype_mutations(data):
            cases.append((name + ":" + lab, {"data": m}))
        # wrong declared lengths
        for ln in (0, 1, len(data) - 1, len(data) + 1, 1 << 32, (1 << 64) - 1):
            cases.append((name + ":len=%d" % ln, {"data": data, "len": ln}))
    for n, d in seeds:
        small = d if len(d) < 6000 else None
        if small is None:
            continue
        for lab, m in readcheck.havoc(d, rng, 150 if quick else 1500):
            cases.append((n + ":" + lab, {"data": m}))
        for lab, m in readcheck.truncations(d, 37 if quick else 3):
            cases.append((n + ":" + lab, {"data": m}))
    # fragments against the init segment: mutate the media segment
    for lab, m in readcheck.havoc(frag, rng, 150 if quick else 1500) + readcheck.truncations(frag, 11 if quick else 1):
        cases.append(("frag:" + lab, {"data": init, "frag": m}))
    cases += readcheck.trun_bombs(init)[::3]
    # the metadata corpus of C18 (every tag subset, 64-bit headers on metadata boxes, edge forms of year / poster items incl. empty payloads)
    import check_c18
    for name, data, _ in check_c18.cases(random.Random(rep.seed * 7919 + 18), rep.tier):
        cases.append(("c18:" + name, {"data": data}))
    # generated fragmented movies (several track fragments of one track in a movie fragment, missing trun / tfdt, three base modes),
    # as one stream and as init + media segment, with boundary substitutions into every field of the moof boxes
    for name, finit, m1, m0, fields in readcheck.valid_fragmented(rng, 6 if quick else 40):
        cases.append((name, {"data": finit + m1}))
        cases.append((name + ":seg", {"data": finit, "frag": m0}))
        # every box of the fragmented movie missing in turn (mvex, trex, mehd, tfhd, tfdt, trun, ...): as one stream, and in the init segment
        for lab, m in readcheck.retype_mutations(finit + m1):
            cases.append((name + ":" + lab, {"data": m}))
        for lab, m in readcheck.retype_mutations(finit):
            cases.append((name + ":seg:" + lab, {"data": m, "frag": m0}))
        for off, width, role, path in fields:
            for v in (readcheck.BOUNDARY if not quick else rng.sample(readcheck.BOUNDARY, 2)):
                vv = v % (1 << (8 * width))
                if m0[off:off + width] == vv.to_bytes(width, "big"):
                    continue
                lab = "%s:%s@%d=%x" % (name, path + ":" + role, off, vv)
                if rng.random() < 0.5:
                    cases.append((lab, {"data": finit, "frag": readcheck.substitute(m0, off, width, vv)}))
                else:
                    cases.append((lab + ":1", {"data": finit + readcheck.substitute(m1, off, width, vv)}))
    return cases


def check(rep):
    proof_ok, details = common.proof_layer(rep, "C06", CONE, extra_targets=["theories/Extract/Extract.vo"])
    with common.Lock():
        hb_ok, hb_log = common.harness_build(["run"])
        ob_ok, ob_log = common.ocaml_build()
    if not ob_ok or not hb_ok:
        rep.violation("build", {"kind": "correspondence", "what": "harness or extracted model does not build", "log": (hb_log + ob_log)[-3000:]}, no_input=True)
        return
    cases = corpus(rep)
    fails, ties = [], []
    stats = {"cases": len(cases), "open_ok": 0, "open_data": 0, "open_io": 0, "model_skipped": 0, "kinds": {}}
    distinct = set()
    for profile in ("debug", "release"):
        res = readcheck.run_both([c for _, c in cases], profile, json=True)
        for (label, c), (impl, model) in zip(cases, res):
            ps = readcheck.panics_in(impl)
            if ps:
                fails.append(("panic_%s_%d" % (profile, len(fails)), {"kind": "input", "what": "panic/abort in " + "; ".join(ps[:4]), "profile": profile, "case": label,
                                                                       "file": c["data"].hex(), "frag": c.get("frag", b"").hex(), "len": c.get("len")}))
            t = readcheck.correspondence(impl, model)
            if t == "skipped":
                stats["model_skipped"] += 1
            elif t:
                ties.append(("model_vs_impl_%s_%d" % (profile, len(ties)), dict(t, kind="correspondence", profile=profile, case=label, file=c["data"].hex(),
                                                                               frag=c.get("frag", b"").hex(), len=c.get("len"))))
            if profile == "debug":
                o = impl.get("open", "dead")
                stats["open_" + o] = stats.get("open_" + o, 0) + 1
                k = label.split(":")[1].split("@")[0] if ":" in label else "seed"
                k = "".join(ch for ch in k if not ch.isdigit())[:24]
                stats["kinds"][k] = stats["kinds"].get(k, 0) + 1
                if o in ("ok", "data"):
                    distinct.add(hash(c["data"]) ^ hash(c.get("frag", b"")))
    rep.coverage.update({"evaluations": 2 * len(cases), "distinct_nontrivial": len(distinct),
                         "rule": "canned files + generated valid movies; single boundary-value substitution {0,1,7,8,15,16,2^16-1,2^31-1,2^31,2^32-1,2^63,2^64-1} into every "
                                 "length/count/offset/version/flag/size field of the renderer's field map, pairwise substitutions, truncation, byte havoc (overwrite/delete/insert/copy), "
                                 "wrong declared lengths, mutated media segments opened against the init segment; generated fragmented movies (repeated tracks inside a movie fragment, "
                                 "track fragments without trun/tfdt, three base modes) with boundary substitutions into every moof field; every public read-side call incl. to_json/summary; debug and release; "
                                 "non-trivial = distinct inputs on which read_header returned Ok or a data error (i.e. parsed past the first header)",
                         "input_distribution": stats})
    rep.coverage["samples"] = [{"case": cases[i][0], "file_hex_prefix": cases[i][1]["data"].hex()[:160]} for i in (10, len(cases) // 2, len(cases) - 1)]
    rep.assumptions = ["harness/run is the compiled /repo library", "stack overflow / abort are observed through the worker exit status", "ocaml/driver.ml glue"]
    known = [f for f in common.known_findings() if f["property"] == "C06" and f["status"] == "known"]
    new_fails = []
    for name, payload in fails:
        k = next((f for f in known if f.get("match") and f["match"] in payload["what"]), None)
        if k:
            rep.known(k["id"], payload["what"] + " on " + payload["case"])
            known = [f for f in known if f is not k] + []
        else:
            new_fails.append((name, payload))
    for name, payload in new_fails[:5]:
        rep.violation(name, payload)
    if new_fails:
        return
    if not proof_ok:
        rep.violation("proof_obligation", {"kind": "obligation", "what": "Props/C06 no longer checks", "details": details,
                                           "searched": "%d inputs x 2 profiles under catch_unwind: no panic" % len(cases)}, no_input=True)
        return
    for name, payload in ties[:5]:
        payload["searched"] = "%d inputs x 2 profiles under catch_unwind: no panic" % len(cases)
        rep.violation(name, payload, no_input=True)
