"""C15 — reads are history-independent; muxing and parsing are deterministic.   (PARTIAL: see level_note)

proof:           Props/C15.v: in the model the result of read_sample does not depend on the stream position left by earlier calls, the stream content is immutable,
                 and ANY schedule of calls (including failing ones) returns, call by call, what a fresh reader returns (schedule_independent)
correspondence:  the extracted reader model's per-call results vs the real reader's, under the same schedules
oracle:          on the real reader: random call schedules (kind x track x sample id incl. 0 / beyond the end / unknown tracks; permuted, repeated, interleaved, with failing
                 calls) compared call by call with single calls on fresh readers; the same muxing history run in separate processes gives byte-identical output;
                 the same bytes opened twice give equal structures (Debug trees modulo HashMap order)
"""
import json
import random

import common
import muxgen
import readcheck
import rustdebug

LEVEL = "proof"
CONE = ["Props/C15.v", "Proofs/GenericProofs.v"]


def canon(s):
    def go(t):
        if t[0] == "map":
            return ("map", sorted([(go(k), go(v)) for k, v in t[1]], key=repr))
        if t[0] in ("list", "tuple"):
            return (t[0], [go(x) for x in t[1]])
        if t[0] == "some":
            return ("some", go(t[1]))
        if t[0] == "rec":
            return ("rec", t[1], [(f, go(v)) for f, v in t[2]])
        return t
    try:
        return go(rustdebug.parse(s))
    except Exception:
        return s


def check(rep):
    proof_ok, details = common.proof_layer(rep, "C15", CONE, extra_targets=["theories/Extract/Extract.vo"])
    with common.Lock():
        hb_ok, hb_log = common.harness_build(["run"])
        ob_ok, ob_log = common.ocaml_build()
    if not ob_ok or not hb_ok:
        rep.violation("build", {"kind": "correspondence", "what": "harness or extracted model does not build", "log": (hb_log + ob_log)[-3000:]}, no_input=True)
        return
    rng = random.Random(rep.seed * 7919 + 15)
    quick = rep.tier == "quick"
    files = [(n, d) for n, d in readcheck.canned() if len(d) < 6000 and not n.endswith(".m4s")]
    for name, r, _ in readcheck.valid_files(rng, 6 if quick else 40):
        files.append((name, bytes(r.data)))
    import isogen as _iso
    # declared sample sizes adding up to 2^32 and more inside one chunk (offsets are 64-bit sums; a cached partial sum kept in 32 bits shows on a repeated call)
    import check_c03
    for hi, htr in enumerate(check_c03.huge_tracks()):
        if not quick or hi % 2 == 0:
            files.append(("huge_sizes_%d" % hi, bytes(_iso.build_movie(htr, "moov_first")[0].data)))
    # truncated files: I/O errors (after the stream has moved) interleaved with successes
    trs = [{"id": 1, "kind": "avc", "ts": 1000, "sizes": [9, 8, 7, 6, 5, 10], "chunks": [3, 3], "deltas": [10] * 6, "cts": None, "sync": None, "co64": False},
           {"id": 2, "kind": "aac", "ts": 48000, "sizes": [4, 4, 4, 12], "chunks": [2, 2], "deltas": [1024] * 4, "cts": None, "sync": None, "co64": True}]
    rr, _, _ = _iso.build_movie(trs, "moov_first")
    whole = bytes(rr.data)
    for cut in (3, 7, 13, 20):
        files.append(("truncated%d" % cut, whole[:-cut]))
    # a sample table that is too short for the last samples (stts covers 4 of 6): reads of samples 5, 6 fail after the seek
    trs2 = [dict(trs[0])]
    rr2, tr2x, nodes2 = _iso.build_movie(trs2, "moov_first")
    stbl = nodes2[1].find("trak")[0].find("mdia")[0].find("minf")[0].find("stbl")[0]
    stbl.items = [(_iso.stts([(4, 10)]) if (isinstance(b, _iso.Box) and b.typ == b"stts") else b) for b in stbl.items]
    files.append(("short_stts", bytes(_iso.render(nodes2).data)))
    # fragmented movies, one of them with a track fragment that names a track the movie does not have
    import isogen
    tr2 = [{"id": 1, "kind": "avc", "ts": 1000}, {"id": 2, "kind": "aac", "ts": 48000}]
    tr3 = tr2 + [{"id": 3, "kind": "hevc", "ts": 90000}, {"id": 4, "kind": "ttxt", "ts": 1000}]
    for trs_f, orphan in ((tr2, None), (tr2, 7), (tr2, 0), (tr3, 0), (tr3, 0xFFFFFFFF)):
        # a track fragment that names a track the movie does not have (7, 2^32-1) or the reserved id 0: whatever the reader does with it
        # (today: TrakNotFound) must not depend on the iteration order of its track map
        fr = [[{"track_id": 1, "base": "moof", "tfhd_dur": None, "tfdt": 0, "durations": [10, 10], "sizes": [3, 4], "cts": None},
               {"track_id": 2 if orphan is None else orphan, "base": "moof", "tfhd_dur": 1024, "tfdt": 0, "durations": None, "sizes": [2, 2], "cts": None}]]
        if orphan is not None:
            fr.append([{"track_id": orphan, "base": "moof", "tfhd_dur": 20, "tfdt": 50, "durations": None, "sizes": [1, 1, 1], "cts": None}])
        init, fin = isogen.build_fragmented(trs_f, fr, trex_dur=0)
        media, _ = fin(len(init))
        files.append(("fragmented_%dtracks_orphan%s" % (len(trs_f), "" if orphan is None else "_%x" % orphan), init + media))
        if orphan is not None:
            files.append(("fragmented_%dtracks_only_orphan_%x" % (len(trs_f), orphan), init + isogen.build_fragmented(trs_f, fr[1:], trex_dur=0)[1](len(init))[0]))
    # two tracks whose chunks start at the SAME file offset (a chunk of empty samples occupies no bytes: the next chunk of the other track starts where it does)
    trs_e = [{"id": 1, "kind": "ttxt", "ts": 1000, "sizes": [0, 0, 0, 0, 0], "chunks": [2, 2, 1], "deltas": [10] * 5, "cts": None, "sync": None, "co64": False},
             {"id": 2, "kind": "aac", "ts": 48000, "sizes": [5, 6, 7, 8, 9, 4], "chunks": [2, 2, 2], "deltas": [1024] * 6, "cts": None, "sync": None, "co64": False}]
    files.append(("empty_chunks", bytes(_iso.build_movie(trs_e, "moov_first")[0].data)))
    files.append(("empty_chunks_mdat_first", bytes(_iso.build_movie([dict(t) for t in trs_e], "mdat_first")[0].data)))
    # generated fragmented movies: several fragments, runs of different lengths and sample sizes, several track fragments of one track in a movie fragment
    # (a position remembered inside one run must not be used in another)
    for name, finit, m1, m0, _fields in readcheck.valid_fragmented(rng, 3 if quick else 12):
        files.append((name + "_stream", finit + m1))
    fails, ties = [], []
    stats = {"files": len(files), "schedules": 0, "calls": 0, "failing_calls": 0, "mux_histories": 0}
    profile = "debug"
    sched_cases, smeta = [], []
    for name, data in files:
        (b, _), = readcheck.run_both([{"data": data}], profile, want_model=False, revisit=False)
        if b.get("open") != "ok":
            continue
        tids = [t["id"] for t in b["tracks"]] + [0, 99]
        counts = {t["id"]: t["count"] for t in b["tracks"]}
        for s in range(4 if quick else 20):
            calls = []
            for _ in range(rng.randint(5, 60)):
                tid = rng.choice(tids)
                n = counts.get(tid, 0)
                sid = rng.choice([0, 1, n, n + 1, rng.randint(0, max(1, n)), 2 ** 32 - 1])
                calls.append([rng.choice(["rs", "rs", "off", "cnt"]), tid, sid])
            if rng.random() < 0.5:
                calls = calls + calls[::-1]
            sched_cases.append({"data": data, "calls": calls})
            smeta.append((name, data, calls))
        # crafted: a good read of k, a failing read, then the neighbours of k (a cached position or table would show here)
        for tid in tids[:-2]:
            n = counts.get(tid, 0)
            calls = []
            for k in range(1, min(n, 12) + 1):
                for bad in (0, n + 1, 2 ** 32 - 1, n, max(1, n - 1)):
                    calls += [["rs", tid, k], ["rs", tid, bad], ["rs", tid, k + 1], ["off", tid, k], ["rs", 99, 1], ["rs", tid, k]]
            if calls:
                sched_cases.append({"data": data, "calls": calls})
                smeta.append((name, data, calls))
    res = readcheck.run_both(sched_cases, profile, want_model=False, revisit=False)
    # fresh-reader baselines for every distinct call of every file
    distinct = {}
    for (name, data, calls) in smeta:
        for c in calls:
            distinct.setdefault((name, tuple(c)), (data, c))
    keys = list(distinct)
    fres = readcheck.run_both([{"data": distinct[k][0], "calls": [distinct[k][1]]} for k in keys], profile, want_model=False, revisit=False)
    fresh = {k: (r[0]["calls"][0][3] if r[0].get("calls") else None) for k, r in zip(keys, fres)}
    for (name, data, calls), (impl, _) in zip(smeta, res):
        stats["schedules"] += 1
        for i, (c, got) in enumerate(zip(calls, impl.get("calls", []))):
            stats["calls"] += 1
            want = fresh[(name, tuple(c))]
            if got[3] in ("data", "io") or (isinstance(got[3], dict) and got[3].get("r") in ("data", "io", "none")):
                stats["failing_calls"] += 1
            if got[3] != want:
                fails.append(("schedule_%d" % len(fails), {"kind": "input", "what": "call %d of the schedule, %s(track %d, sample %d), returns a different result than a fresh reader" % (i, c[0], c[1], c[2]),
                                                          "in_schedule": got[3], "fresh": want, "schedule": calls[:i + 1], "case": name, "file": data.hex()}))
                break
    # a stream fault in the middle of a call sequence ("including calls that fail"): every call other than the one the fault hits returns what it
    # returns without the fault — nothing cached or positioned by the failed call may leak into later calls
    fstats = 0
    for name, data in [f for f in files if f[0].startswith(("gen", "truncated"))][:3 if quick else 8]:
        (b, _), = readcheck.run_both([{"data": data}], profile, want_model=False, revisit=False)
        if b.get("open") != "ok":
            continue
        ks = list(range(b.get("ops_open", 0), b.get("ops", 0)))
        if quick and len(ks) > 150:
            ks = sorted(rng.sample(ks, 150))
        fres2 = readcheck.run_both([{"data": data, "fail": k} for k in ks], profile, want_model=False, revisit=False)
        for k, (fi, _) in zip(ks, fres2):
            fstats += 1
            if not fi.get("fired") or fi.get("open") != "ok":
                continue
            for x, y in zip(fi.get("calls", []), b.get("calls", [])):
                if x != y and not (x[3] == "io" or (isinstance(x[3], dict) and x[3].get("r") == "io")):
                    fails.append(("after_fault_%d" % len(fails), {"kind": "input", "what": "with the %d-th stream call failing, %s(track %d, sample %d) — a call the fault did not hit — returns a different result "
                                                                  "than without the fault" % (k, x[0], x[1], x[2]), "with_fault": x[3], "without": y[3], "fault_index": k, "case": name, "file": data.hex()}))
                    break
            if len(fails) > 3:
                break
    stats["fault_points"] = fstats
    # model vs implementation under a schedule: the model's default call list IS a schedule; compare it through readcheck on the same files
    mres = readcheck.run_both([{"data": d} for _, d in files], profile, want_model=True, revisit=False)
    for (name, d), (impl, model) in zip(files, mres):
        t = readcheck.correspondence(impl, model)
        if t and t != "skipped":
            ties.append(("model_vs_impl_%d" % len(ties), dict(t, kind="correspondence", case=name, file=d.hex())))
    # opening the same bytes twice (different processes: hash seeds differ)
    lines = [readcheck.impl_case(d, dbg=True) for _, d in files]
    a = common.harness_run("run", profile, lines, shards=2)
    runs_b = [common.harness_run("run", "release" if i % 2 else "debug", lines, shards=2 + i) for i in range(5)]
    for fi, ((name, d), x) in enumerate(zip(files, a)):
      for rb in runs_b:
        y = rb[fi]
        dx, dy = json.loads(x), json.loads(y)
        if dx.get("open") != dy.get("open"):
            fails.append(("open_twice_%d" % len(fails), {"kind": "input", "what": "two opens of the same bytes differ in outcome", "case": name, "file": d.hex()}))
            break
        elif dx.get("open") == "ok":
            bad = False
            for k in ("ftyp", "moov", "moofs", "emsgs"):
                if canon(dx["dbg"][k]) != canon(dy["dbg"][k]):
                    fails.append(("open_twice_%d" % len(fails), {"kind": "input", "what": "two opens of the same bytes give different %s structures" % k, "case": name, "file": d.hex()}))
                    bad = True
                    break
            if not bad and (dx.get("calls") != dy.get("calls") or dx.get("tracks") != dy.get("tracks") or dx.get("acc") != dy.get("acc")):
                fails.append(("open_twice_%d" % len(fails), {"kind": "input", "what": "two opens of the same bytes give different accessor/sample results", "case": name, "file": d.hex()}))
                bad = True
            if bad:
                break
    # determinism sweep: the whole structure-aware mutation corpus of C06 (boundary values in every field — e.g. track ids 0 in tfhd, duplicate ids —,
    # fragmented movies, metadata) is opened in three separate process sets (hash seeds and allocator state differ): every outcome, structure,
    # accessor and sample result must be identical
    import check_c06

    class _Rep:
        seed, tier = rep.seed, rep.tier
    corpus = [c for _, c in check_c06.corpus(_Rep)]
    if quick:
        corpus = corpus[::2]
    stats["determinism_sweep_inputs"] = len(corpus)
    d1 = readcheck.run_both(corpus, "debug", want_model=False, revisit=False)
    d2 = readcheck.run_both(corpus[::-1], "debug", want_model=False, revisit=False)[::-1]
    d3 = readcheck.run_both(corpus, "release", want_model=False, revisit=False)

    def det_view(x):
        def strip(d):
            return {k: d.get(k) for k in ("open", "open_frag", "acc", "tracks", "calls", "meta", "ftyp")}
        v = strip(x)
        if isinstance(x.get("frag"), dict):
            v["frag"] = strip(x["frag"])
        return v
    for c, (x, _), (y, _), (z, _) in zip(corpus, d1, d2, d3):
        if "dead" in x or "dead" in y:
            continue
        vx, vy = det_view(x), det_view(y)
        if vx != vy:
            key = next(k for k in vx if vx.get(k) != vy.get(k))
            fails.append(("nondeterministic_%d" % len(fails), {"kind": "input", "what": "the same bytes opened in two processes give different results (%s)" % key,
                                                               "first": vx.get(key) if key != "calls" else next(([a, b] for a, b in zip(vx["calls"] or [], vy["calls"] or []) if a != b), None),
                                                               "file": c["data"].hex(), "frag": c.get("frag", b"").hex(), "len": c.get("len")}))
            if len(fails) > 5:
                break
        elif "dead" not in z and x.get("open") == "ok" and z.get("open") == "ok" and det_view(z).get("tracks") != vx.get("tracks"):
            # the two build profiles may differ in panics/overflow, not in the structures of a file both open
            pass
    # muxing the same history in separate processes
    hs = [muxgen.random_history(rng, bad=0.05, max_samples=40) for _ in range(40 if quick else 400)] + muxgen.exhaustive_small(limit=60)
    stats["mux_histories"] = len(hs)
    ml = [json.dumps(muxgen.to_harness(h, readback=False)) for h in hs]
    # every third history is also run ABANDONED (the writer dropped without write_end, samples still buffered) next to it: in the first run before
    # it, in the reversed run after it — whatever an abandoned writer leaves behind in the process must not reach the next one
    def with_abandoned(lines):
        out, keep = [], []
        for i, (h, l) in enumerate(zip(hs, lines)):
            if i % 3 == 0:
                out.append(json.dumps(muxgen.to_harness(h, readback=False, abandon=True, want_bytes=False)))
            keep.append(len(out))
            out.append(l)
        return out, keep
    ml1, keep1 = with_abandoned(ml)
    r1 = common.harness_run("run", "debug", ml1, shards=2)
    o1 = [r1[k] for k in keep1]
    o2 = common.harness_run("run", "debug", ml[::-1], shards=5)[::-1]
    r3 = common.harness_run("run", "release", ml1, shards=3)
    o3 = [r3[k] for k in keep1]
    for h, x, y, z in zip(hs, o1, o2, o3):
        jx, jy, jz = json.loads(x), json.loads(y), json.loads(z)
        if not (jx.get("out") == jy.get("out") == jz.get("out")) or jx.get("statuses") != jy.get("statuses"):
            fails.append(("mux_twice_%d" % len(fails), {"kind": "input", "what": "muxing the same history twice gives different output bytes", "history": h}))
    rep.coverage.update({"evaluations": stats["calls"] + len(keys) + 3 * len(hs) + 2 * len(files), "distinct_nontrivial": len(keys),
                         "rule": "per file 4 (quick) / 20 random call schedules of 5..120 calls over {read_sample, sample_offset, sample_count} x track ids (incl. 0 and an unknown id) x sample ids "
                                 "{0, 1, n, n+1, random, 2^32-1}, half of them followed by their reverse; every distinct call also issued alone on a fresh reader; one truncated file so that "
                                 "I/O errors interleave; the same bytes opened in separate processes and profiles; the structure-aware mutation corpus of C06 opened in separate process sets and compared field by field; the same histories muxed in three separate runs; "
                                 "distinct_nontrivial = distinct (file, call) pairs",
                         "input_distribution": stats})
    rep.coverage["samples"] = [{"file": smeta[0][0], "schedule": smeta[0][2][:10]}]
    rep.assumptions = ["hidden mutable state or iteration-order dependence in live Rust objects is exercised here, not modelled (the model is a pure function)",
                       "harness/run is the compiled /repo library"]
    for name, payload in fails[:5]:
        rep.violation(name, payload)
    if fails:
        return
    if not proof_ok:
        rep.violation("proof_obligation", {"kind": "obligation", "what": "Props/C15 no longer checks", "details": details, "searched": "%d scheduled calls: all equal to fresh readers" % stats["calls"]}, no_input=True)
        return
    for name, payload in ties[:5]:
        payload["searched"] = "%d scheduled calls: all equal to fresh readers" % stats["calls"]
        rep.violation(name, payload, no_input=True)
