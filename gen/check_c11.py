"""C11 — truncated files never yield wrong data.

proof:           Props/C11.v: prefix_stable (a run that does not hit the end of the prefix behaves identically on the full data), read_sample_prefix,
                 open_loop_prefix / open_prefix_moov (the prefix reader has the same moov/ftyp and a prefix of the moofs), truncated_unfragmented, truncated_fragmented
correspondence:  the extracted reader model vs the real reader on prefixes (every 4th cut)
oracle:          on the real reader: EVERY cut 0..len of files in every layout (movie header first / last, with metadata, fragmented, canned files); opening the prefix
                 with its own length must fail or succeed; every sample it then returns must equal, in bytes and timing, that sample of the complete file
"""
import random

import common
import isogen
import readcheck

LEVEL = "proof"
CONE = ["Props/C11.v", "Props/C11Open.v", "Props/C11Frag.v", "Proofs/FragPrefix.v", "Proofs/GenericPrefix.v", "Proofs/GenericFrag.v", "Proofs/MuxPrefix.v"]


def files(rng, tier):
    out = []
    udta = isogen.udta([isogen.meta([isogen.ilst([isogen.ilst_item(isogen.TITLE, 1, b"Cut me")])])])
    for i in range(6 if tier == "quick" else 24):
        trs = readcheck.small_tracks(rng, maxn=6)
        # every third movie: a box in front of ftyp (signature box / free box of a size that lets a cut fall inside ftyp past the top-level size check)
        lead = [isogen.Box("jP  ", [isogen.Raw(b"\r\n\x87\n")])] if i % 6 == 2 else [isogen.Box("free", [isogen.Raw(b"\0" * rng.choice([16, 40, 100]))])] if i % 3 == 2 else []
        # i % 3 == 1: the media data box in the 64-bit header form; i % 4 == 3: a 64-bit-header free box as the last box of the file (a cut inside the
        # last 8 bytes of a skipped box with the long header must be handled like any other cut)
        r, _, nodes = isogen.build_movie(trs, "moov_first" if i % 2 == 0 else "mdat_first", udta=udta if i % 3 == 0 else None, lead=lead, mdat_to_eof=(i % 4 == 0),
                                         large_mdat=(i % 3 == 1))
        if i % 4 == 3:
            nodes = nodes + [isogen.Box("free", [isogen.Raw(b"\0" * 5)], large=True)]
            r = isogen.render(nodes)
        if i % 2 == 1:
            # movie header last: shuffle the children of every container (any table may then be the last bytes of the file)
            import check_c12
            nodes = nodes[:-1] + [check_c12.transform(nodes[-1], rng, p_ins=0.0, p_perm=1.0, p_large=0.0, p_pad=0.0)]
            r = isogen.render(nodes)
        out.append(("movie%d" % i, bytes(r.data), False))
    # movie header last, and one chosen table box is the very last box of the file (every container on the way holds it last):
    # a cut inside that table is followed by nothing
    def tail_order(node, chain):
        if not isinstance(node, isogen.Box) or not chain:
            return node
        kids = [k for k in node.items]
        last = [k for k in kids if isinstance(k, isogen.Box) and k.typ == chain[0]]
        if not last:
            return node
        rest = [k for k in kids if k is not last[-1]]
        return isogen.Box(node.typ, rest + [tail_order(last[-1], chain[1:])], node.large, node.pad)
    for j, tbl in enumerate((b"stts", b"ctts", b"stss", b"stsc", b"stsz", b"stco", b"co64") if tier == "quick" else (b"stts", b"ctts", b"stss", b"stsc", b"stsz", b"stco", b"co64") * 3):
        trs = [{"id": 1, "kind": "avc", "ts": 1000, "sizes": [5, 3, 0, 4, 6, 2, 7], "chunks": [1, 2, 2, 1, 1], "deltas": [10, 10, 20, 20, 5, 5, 9], "cts": [0, 3, -3, 0, 1, 0, 0],
                "sync": [1, 4, 6], "co64": tbl == b"co64", "stsc_split": (lambda q: True) if j % 2 == 0 else None}]
        r, _, nodes = isogen.build_movie(trs, "mdat_first")
        nodes = nodes[:-1] + [tail_order(nodes[-1], [b"trak", b"mdia", b"minf", b"stbl", tbl])]
        out.append(("tail_%s_%d" % (tbl.decode(), j), bytes(isogen.render(nodes).data), False))
    for i in range(2 if tier == "quick" else 12):
        tracks = [{"id": 1, "kind": "avc", "ts": 1000}, {"id": 2, "kind": "aac", "ts": 48000}][:rng.choice([1, 2])]
        frags = []
        clock = {1: 0, 2: 0}
        cnt = {1: 1, 2: 1}
        # 3-6 fragments with runs of 1-5 samples (i == 0: the runs 3, 2, 4, 3, 5 — a prefix holding the first four looks "uniform" by first/last/total)
        nfr = 5 if i == 0 else rng.choice([3, 4, 5, 6])
        for f in range(nfr):
            fr = []
            for t in tracks:
                n = [3, 2, 4, 3, 5][f] if i == 0 else rng.choice([1, 2, 3, 4, 5])
                # durations: per sample, from the tfhd default of this fragment, or from the movie-level (trex) default 512 — mixed within one track
                dmode = "per" if i == 0 else rng.choice(["per", "tfhd", "trex", "trex"])
                durs = [rng.choice([10, 20]) for _ in range(n)] if dmode == "per" else [300] * n if dmode == "tfhd" else [512] * n
                fr.append({"track_id": t["id"], "base": rng.choice(["moof", "explicit"]), "tfhd_dur": 300 if dmode == "tfhd" else None, "tfdt": clock[t["id"]],
                           "durations": durs if dmode == "per" else None, "sizes": [rng.choice([1, 4, 9]) for _ in range(n)], "cts": None, "k0": cnt[t["id"]]})
                cnt[t["id"]] += n
                clock[t["id"]] += sum(durs)
            frags.append(fr)
        init, fin = isogen.build_fragmented(tracks, frags, trex_durs={t["id"]: 512 for t in tracks})
        media, _ = fin(len(init))
        out.append(("frag%d" % i, init + media, True))
    for n, d in readcheck.canned():
        if len(d) < 6000 and not n.endswith(".m4s"):
            out.append((n, d, False))
    return out


def hybrid():
    """a track with samples in the sample table AND movie fragments (D92)"""
    trs = [{"id": 1, "kind": "avc", "ts": 1000, "sizes": [3, 3], "chunks": [2], "deltas": [100, 100], "cts": None, "sync": None, "co64": False}]
    r, _, _ = isogen.build_movie(trs, "moov_first", mvex=isogen.mvex([isogen.trex(1, 1, 0)]))
    head = bytes(r.data)
    _, fin = isogen.build_fragmented([{"id": 1, "kind": "avc", "ts": 1000}], [[{"track_id": 1, "base": "moof", "tfhd_dur": None, "tfdt": 5000, "durations": [1000], "sizes": [5], "cts": None}]])
    media, _ = fin(len(head))
    return head + media


def compare_prefix(full, pre, fragmented):
    """returns None or a description: a sample the prefix reader returns must equal that sample of the complete file (bytes and timing)"""
    fc = {(k, t, s): v for k, t, s, v in full.get("calls", [])}
    for k, t, s, v in pre.get("calls", []):
        if k != "rs" or not isinstance(v, dict) or v.get("r") != "some":
            continue
        w = fc.get((k, t, s))
        keys = ("bytes", "len", "start", "dur", "cts")
        if not isinstance(w, dict) or w.get("r") != "some" or any(v.get(x) != w.get(x) for x in keys):
            return {"what": "sample %d of track %d read from the prefix differs from the complete file" % (s, t), "prefix": {x: v.get(x) for x in keys},
                    "complete": w if not isinstance(w, dict) else {x: w.get(x) for x in ("r",) + keys}}
    return None


def check(rep):
    proof_ok, details = common.proof_layer(rep, ["C11", "C11Open", "C11Frag"], CONE, extra_targets=["theories/Extract/Extract.vo"])
    with common.Lock():
        hb_ok, hb_log = common.harness_build(["run"])
        ob_ok, ob_log = common.ocaml_build()
    if not ob_ok or not hb_ok:
        rep.violation("build", {"kind": "correspondence", "what": "harness or extracted model does not build", "log": (hb_log + ob_log)[-3000:]}, no_input=True)
        return
    rng = random.Random(rep.seed * 7919 + 11)
    fl = files(rng, rep.tier)
    fails, ties = [], []
    stats = {"files": len(fl), "cuts": 0, "prefix_opens_ok": 0, "prefix_samples_checked": 0, "model_compared": 0}
    known = [f for f in common.known_findings() if f["property"] == "C11" and f["status"] == "known"]
    profile = "debug"
    for name, data, fragmented in fl:
        (full, _), = readcheck.run_both([{"data": data}], profile, want_model=False)
        if full.get("open") != "ok":
            fails.append(("full_%d" % len(fails), {"kind": "input", "what": "the complete file does not open", "case": name, "file": data.hex()}))
            continue
        cuts = list(range(len(data)))
        cases = [{"data": data[:n]} for n in cuts]
        stats["cuts"] += len(cuts)
        res = readcheck.run_both(cases, profile, want_model=False)
        sub = [i for i in range(len(cuts)) if i % 4 == 0]
        mres = readcheck.run_both([cases[i] for i in sub], profile, want_model=True)
        for i, (impl, model) in zip(sub, mres):
            t = readcheck.correspondence(impl, model)
            stats["model_compared"] += 1
            if t and t != "skipped":
                ties.append(("model_vs_impl_%d" % len(ties), dict(t, kind="correspondence", case="%s cut@%d" % (name, cuts[i]), file=data[:cuts[i]].hex())))
        for n, (impl, _) in zip(cuts, res):
            ps = readcheck.panics_in(impl)
            if ps:
                fails.append(("panic_%d" % len(fails), {"kind": "input", "what": "prefix of length %d: %s" % (n, ps[0]), "case": name, "file": data[:n].hex()}))
                continue
            if impl.get("open") == "ok":
                stats["prefix_opens_ok"] += 1
                stats["prefix_samples_checked"] += sum(1 for c in impl.get("calls", []) if c[0] == "rs" and isinstance(c[3], dict) and c[3].get("r") == "some")
                d = compare_prefix(full, impl, fragmented)
                if d:
                    fails.append(("wrong_data_%d" % len(fails), dict(d, kind="input", case="%s cut@%d of %d" % (name, n, len(data)), file=data.hex(), cut=n)))
    # known finding D92 (hybrid files)
    hy = hybrid()
    (full, _), = readcheck.run_both([{"data": hy}], profile, want_model=False)
    res = readcheck.run_both([{"data": hy[:n]} for n in range(len(hy))], profile, want_model=False)
    for n, (impl, _) in enumerate(res):
        if impl.get("open") == "ok":
            d = compare_prefix(full, impl, True)
            if d:
                if any(k["id"] == "D92" for k in known):
                    rep.known("D92", "hybrid file (sample table + fragments): cut@%d: %s" % (n, d["what"]))
                else:
                    fails.append(("hybrid", dict(d, kind="input", case="hybrid cut@%d" % n, file=hy.hex(), cut=n)))
                break
    rep.coverage.update({"evaluations": stats["cuts"], "distinct_nontrivial": stats["prefix_opens_ok"],
                         "rule": "every cut position 0..len-1 of generated movies (movie header first and last, with and without metadata), fragmented single-stream movies (3 fragments, "
                                 "1-2 tracks, both base modes) and the canned files; the prefix is opened with its own length; non-trivial = prefixes that open successfully "
                                 "(each of their readable samples is compared with the complete file)",
                         "input_distribution": stats, "exhaustive": True})
    rep.coverage["samples"] = [{"file": fl[0][0], "len": len(fl[0][1]), "cut": len(fl[0][1]) // 2}, {"file": fl[-1][0], "len": len(fl[-1][1])}]
    rep.assumptions = ["harness/run is the compiled /repo library (debug profile)", "the sync flag of fragmented samples depends on the number of fragments seen and is outside 'bytes and timing'"]
    for name, payload in fails[:5]:
        rep.violation(name, payload)
    if fails:
        return
    if not proof_ok:
        rep.violation("proof_obligation", {"kind": "obligation", "what": "Props/C11 no longer checks", "details": details, "searched": "%d cuts: no wrong data" % stats["cuts"]}, no_input=True)
        return
    for name, payload in ties[:5]:
        payload["searched"] = "%d cuts: no wrong data" % stats["cuts"]
        rep.violation(name, payload, no_input=True)
