"""C03 — sample lookup in non-fragmented files follows ISO sample-table semantics.

proof:           Props/C03.v: for every `consistent` table set the lookup model (Model/Track.v) returns what the
                 independent ISO specification (Spec/SampleTable.v) defines; unbounded tables, both build modes
correspondence:  the extracted lookup model vs the real Mp4Reader (sample_count / sample_offset / read_sample for ids
                 0..n+2 and huge ids) on files rendered from generated table sets
oracle:          the extracted SPECIFICATION (not the model) evaluated on the same tables vs the real reader
"""
import itertools
import json
import random

import common
import isogen

LEVEL = "proof"
CONE = ["Props/C03.v", "Props/C03Open.v", "Proofs/LookupProofs.v", "Proofs/FileLookup.v", "Spec/SampleTable.v", "Model/Track.v", "Model/Reader.v"]
U32 = 1 << 32


def compositions(n):
    if n == 0:
        yield []
        return
    for first in range(1, n + 1):
        for rest in compositions(n - first):
            yield [first] + rest


def subsets(n, limit):
    ids = list(range(1, n + 1))
    out = [None, []]
    for r in range(1, n + 1):
        for c in itertools.combinations(ids, r):
            out.append(list(c))
    return out[:limit] if limit else out


def exhaustive(tier):
    maxn = 4 if tier == "quick" else 6
    cases = []
    kinds = ["avc", "aac", "hevc", "ttxt", "vp9"]
    i = 0
    for n in range(0, maxn + 1):
        for comp in compositions(n):
            for split_stsc, fixed, split_tt, with_cts, co64 in itertools.product((False, True), (False, True), (False, True), (False, True), (False, True)):
                if fixed:
                    sizes = [5] * n
                else:
                    sizes = [(3, 0, 7, 1, 0, 9)[k % 6] for k in range(n)]
                deltas = [(10, 10, 25, 10, 10, 3)[k % 6] for k in range(n)]
                cts = [(0, 4, 4, -2, 0, 0)[k % 6] for k in range(n)] if with_cts else None
                for sync in subsets(n, None if n <= 3 else 6):
                    i += 1
                    if tier == "quick" and n == 4 and i % 3:
                        continue
                    cases.append([{"id": 1, "kind": kinds[i % 5], "ts": 1000, "sizes": sizes, "chunks": comp, "deltas": deltas, "cts": cts, "sync": sync,
                                   "co64": co64, "fixed": fixed,
                                   "stsc_split": (lambda j: True) if split_stsc else None,
                                   "stts_split": (lambda j: j % 2 == 0) if split_tt else None,
                                   "ctts_split": (lambda j: j % 2 == 1) if split_tt else None}])
                    if i % 4 == 1 and n >= 2:
                        # the same track with zero-count runs sprinkled into stts and ctts (ctts padded to exactly one ENTRY per sample)
                        z = dict(cases[-1][0])
                        z["zero_runs"] = 1 + i % 2
                        cases.append([z])
    return cases


def random_tracks(rng, maxn):
    ntr = rng.choice([1, 1, 2, 3])
    trs = []
    for t in range(ntr):
        n = rng.choice([0, 1, 2, 3, 7, 20, rng.randint(0, maxn)])
        chunks = []
        left = n
        while left > 0:
            c = min(left, rng.choice([1, 1, 2, 3, 5, 10, 50]))
            chunks.append(c)
            left -= c
        fixed = rng.random() < 0.3
        sizes = [rng.choice([1, 4, 100])] * n if fixed else [rng.choice([0, 0, 1, 2, 3, 17, 300]) for _ in range(n)]
        dv = [rng.choice([0, 1, 40, 1001, U32 - 1]) for _ in range(3)]
        deltas = [rng.choice(dv) for _ in range(n)]
        if n > 1 and sum(deltas) >= (1 << 62):
            deltas = [d % 100000 for d in deltas]
        cts = None if rng.random() < 0.5 else [rng.choice([0, 0, 5, -5, 2 ** 31 - 1, -2 ** 31]) for _ in range(n)]
        sync = None if rng.random() < 0.4 else sorted(rng.sample(range(1, n + 1), rng.randint(0, n))) if n else []
        p = rng.random()
        trs.append({"id": t + 1 if rng.random() < 0.8 else t + 1 + 10 * (t + 1), "kind": rng.choice(["avc", "hevc", "vp9", "aac", "ttxt"]), "ts": rng.choice([1, 1000, 90000]),
                    "sizes": sizes, "chunks": chunks, "deltas": deltas, "cts": cts, "sync": sync, "co64": rng.random() < 0.5, "fixed": fixed,
                    "stsc_split": (lambda j, p=p: (j * 7919) % 10 < p * 10) if rng.random() < 0.5 else None,
                    "stts_split": (lambda j, p=p: (j * 31) % 10 < p * 5) if rng.random() < 0.5 else None,
                    "ctts_split": (lambda j, p=p: (j * 17) % 10 < p * 5) if rng.random() < 0.5 else None})
        if rng.random() < 0.2:
            trs[-1]["zero_runs"] = rng.choice([1, 2])
    return trs


def huge_tracks():
    """declared sample sizes that add up to 2^32 and more inside ONE chunk (legal: co64 / 64-bit mdat); the file carries only the first bytes of
    each sample (data_cap), so only the offset lookups are defined by the file — they are sums in 64 bits"""
    out = []
    M = U32
    for sizes, chunks in (([M - 8, 0x18, 8, 8], [4]), ([M - 1, 1, 1], [3]), ([M - 1, M - 1, M - 1, 5], [4]), ([1 << 31, 1 << 31, 7, 9], [4]),
                          ([3, M - 2, 2, 4], [1, 3]), ([1 << 31, (1 << 31) - 1, 1, 2, 3], [2, 3]), ([M - 1] * 6, [6]), ([M - 1] * 5 + [2], [1, 5])):
        for co64 in (False, True):
            n = len(sizes)
            out.append([{"id": 1, "kind": "avc", "ts": 1000, "sizes": list(sizes), "chunks": list(chunks), "deltas": [10] * n, "cts": None, "sync": None,
                         "co64": co64, "data_cap": 4}])
    return out


def block_tracks():
    """sample counts at and around the block sizes a 'read the table in blocks' implementation would use (1024, 2048, 4096):
    every table has that many entries (per-sample sizes, one sample per chunk / a few chunks, alternating durations)"""
    out = []
    for n in (1023, 1024, 1025, 2048, 4096):   # (the extracted model cannot evaluate tables of 65536 entries in its time limit)
        for shape in (0, 1):
            sizes = [(j * 7) % 5 for j in range(n)] if shape == 0 else [1 + j % 3 for j in range(n)]
            chunks = [1] * n if shape == 0 and n <= 4096 else [n // 4, n // 4, n // 4, n - 3 * (n // 4)]
            deltas = [10 + (j & 1) for j in range(n)] if shape == 0 else [7] * n
            out.append([{"id": 1, "kind": "avc", "ts": 1000, "sizes": sizes, "chunks": chunks, "deltas": deltas, "cts": [(-1) ** j * (j % 3) for j in range(n)] if shape == 0 else None,
                         "sync": list(range(1, n + 1, 2)) if shape == 0 else None, "co64": shape == 1, "stts_split": (lambda j: True) if shape == 0 else None,
                         "ctts_split": (lambda j: True) if shape == 0 else None}])
    return out


def virtual_tracks():
    """tiny files whose run-length tables describe up to 2^32-1 samples (constant sample size, a few runs, a few chunks).  The tables cannot be
    enumerated, so the expected answers come from run_semantics below (14496-12 8.6.1.2, 8.7.3-8.7.5 evaluated on the runs), not from the model."""
    out = []
    M = U32
    for N in (M - 1, 1 << 31, (1 << 24) + 1, 70000):
        for s in (1, 3, 65536 + 1, M - 1):
            for shape in range(4):
                if shape == 0:       # one chunk
                    stsc, offs = [(1, N, 1)], [1 << 33]
                elif shape == 1:     # two chunks of unequal length
                    stsc, offs = [(1, N - 5, 1), (2, 5, 1)], [5000, 1 << 40]
                elif shape == 2:     # three chunks, the first two equal (one run)
                    a = N // 3
                    stsc, offs = [(1, a, 1), (3, N - 2 * a, 1)], [1 << 34, 9, (1 << 63) // max(1, s)]
                else:                # chunks of one sample are impossible at this scale: two runs of two chunks each
                    a, b = N // 4, (N - 2 * (N // 4)) // 2
                    if 2 * a + 2 * b != N:
                        stsc, offs = [(1, a, 1), (3, b, 1), (4, N - 2 * a - b, 1)], [100, 200 + a * s, 1 << 35, 1 << 36]
                    else:
                        stsc, offs = [(1, a, 1), (3, b, 1)], [100, 200 + a * s, 1 << 35, 1 << 36]
                stts = [(N, 1)] if shape == 0 else [(1, 7), (N - 2, 3), (1, 0)] if shape == 1 else [(N // 2, M - 1), (N - N // 2, 2)] if shape == 2 else [(0, 9), (N, 1000)]
                ctts = None if shape % 2 == 0 else [(N - 1, -4), (1, 2 ** 31 - 1)]
                stss = None if shape < 2 else [1, N // 2, N] if shape == 2 else []
                tb = {"stsc": stsc, "stsz": (s, N, []), "stts": stts, "ctts": ctts, "stss": stss, "co64": offs}
                out.append({"id": 1, "kind": "avc", "ts": 1000, "sizes": [], "chunks": [], "deltas": [], "cts": None, "sync": None, "co64": True,
                            "tables_override": tb, "duration": sum(c * d for c, d in stts)})
    return out


def run_semantics(tb, k):
    """(offset, size, start, delta, cts, sync) of sample k (1-based) from run-length tables with a constant sample size; None outside 1..N"""
    s, N, _ = tb["stsz"]
    if not (1 <= k <= N):
        return None
    offs = tb.get("co64") if tb.get("co64") is not None else tb["stco"]
    # chunk runs
    first_sample = 1
    off = None
    for i, (fc, spc, _) in enumerate(tb["stsc"]):
        last_chunk = tb["stsc"][i + 1][0] - 1 if i + 1 < len(tb["stsc"]) else len(offs)
        nch = last_chunk - fc + 1
        if k < first_sample + nch * spc:
            c = fc + (k - first_sample) // spc
            off = offs[c - 1] + ((k - first_sample) % spc) * s
            break
        first_sample += nch * spc
    start, left, delta = 0, k - 1, None
    for cnt, d in tb["stts"]:
        if left < cnt:
            start += left * d
            delta = d
            break
        start += cnt * d
        left -= cnt
    cts = 0
    if tb.get("ctts") is not None:
        left = k - 1
        for cnt, c in tb["ctts"]:
            if left < cnt:
                cts = c
                break
            left -= cnt
    sync = True if tb.get("stss") is None else (k in tb["stss"])
    return off, s, start, delta, cts, sync


def expected_from(model_out, data, n):
    """spec results per id -> the observable the real reader must show"""
    exp = {}
    for e in model_out["ids"]:
        k = int(e["k"], 16)
        sp = e["spec"]
        if sp is not None and 1 <= k <= n:
            off, size = int(sp["off"], 16), int(sp["size"], 16)
            exp[k] = {"off": "ok:%d" % off,
                      "rs": {"r": "some", "start": int(sp["start"], 16), "dur": int(sp["delta"], 16), "cts": sp["cts"], "sync": sp["sync"],
                             "len": size, "bytes": data[off:off + size].hex() if off + size <= len(data) else None}}
        else:
            exp[k] = None
    return exp


def model_view(e):
    """model results per id in the harness's vocabulary"""
    off = e["off"]
    o = "ok:%d" % int(off["v"], 16) if off["r"] == "ok" else {"notfound": "data"}.get(off["r"], off["r"])
    rs = e["rs"]
    if rs["r"] == "ok":
        if rs["v"] is None:
            r = {"r": "none"}
        else:
            v = rs["v"]
            r = {"r": "some", "start": int(v["start"], 16), "dur": int(v["dur"], 16), "cts": v["cts"], "sync": v["sync"],
                 "len": len(v["bytes"]) // 2, "bytes": v["bytes"]}
    else:
        r = {"r": {"notfound": "data"}.get(rs["r"], rs["r"])}
    return o, r


def check(rep):
    proof_ok, details = common.proof_layer(rep, ["C03", "C03Open"], CONE, extra_targets=["theories/Extract/Extract.vo"])
    with common.Lock():
        hb_ok, hb_log = common.harness_build(["run"])
        ob_ok, ob_log = common.ocaml_build()
    if not ob_ok:
        rep.violation("model_build", {"kind": "obligation", "what": "extracted model does not build", "log": ob_log[-2000:]}, no_input=True)
        return
    if not hb_ok:
        rep.violation("harness_build", {"kind": "correspondence", "what": "harness does not compile against /repo", "log": hb_log[-3000:]}, no_input=True)
        return
    rng = random.Random(rep.seed * 7919 + 3)
    movies = exhaustive(rep.tier)
    n_ex = len(movies)
    movies += [random_tracks(rng, 120) for _ in range(400 if rep.tier == "quick" else 8000)]
    movies += huge_tracks()
    n_small = len(movies)
    movies += block_tracks()
    files = []
    for i, trs in enumerate(movies):
        layout = "moov_first" if i % 2 == 0 else "mdat_first"
        base = 0
        if i >= n_ex and i % 11 == 0:
            base = rng.choice([U32 - 300, U32 - 1, U32, (1 << 40), (1 << 62)])
        if base + 200000 >= U32:
            for t in trs:
                t["co64"] = True       # 32-bit chunk offsets cannot represent these positions
        r, tracks, _ = isogen.build_movie(trs, layout, base=base, large_mdat=(i % 7 == 3), mdat_to_eof=(layout == "moov_first" and i % 5 == 1))
        files.append((bytes(r.data), tracks, base, layout))
    fails, ties = [], []
    stats = {"files": len(files), "tracks": 0, "samples": 0, "consistent": 0, "with_base": 0, "co64": 0, "fixed_size": 0, "with_ctts": 0, "with_stss": 0}
    distinct = set()
    for profile in ("debug", "release"):
        mode = "d" if profile == "debug" else "r"
        def ids_of(n):
            if n <= 200:
                return list(range(0, n + 3)) + [0x7fffffff, 0x80000000, 0xfffffffe, 0xffffffff]
            # large tables: the first and last samples, both sides of every power of two, and a stride
            ks = set(range(0, 6)) | set(range(n - 40, n + 3)) | set(range(1, n, max(1, n // 97)))
            for e in range(8, 18):
                ks |= {(1 << e) - 1, 1 << e, (1 << e) + 1}
            return sorted(k for k in ks if 0 <= k <= n + 2) + [0xffffffff]
        impl_lines = []
        for d, trk, b, _ in files:
            if any(len(t["sizes"]) > 200 for t in trk):
                calls = [[kind, t["id"], k] for t in trk for k in ids_of(len(t["sizes"])) for kind in (("cnt", "off", "rs") if k == 0 else ("off", "rs"))]
                impl_lines.append(json.dumps({"cmd": "read", "file": d.hex(), "bytes": True, "base": b, "calls": calls}))
            else:
                impl_lines.append(json.dumps({"cmd": "read", "file": d.hex(), "bytes": True, "base": b, "extra": 2, "max_samples": 200, "revisit": True}))
        impl_raw = common.harness_run("run", profile, impl_lines)
        mlines, midx = [], []
        for fi, (d, tracks, b, _) in enumerate(files):
            for t in tracks:
                n = len(t["sizes"])
                ids = ids_of(n)
                # the model's stream is the file placed at stream position b: pass the data with b virtual zero bytes only when b is small
                mlines.append(isogen.lookup_line(t["tables"], ids, mode, d.hex() if b == 0 else "-"))
                midx.append((fi, t))
        model_raw = common.model_run(mlines)
        per_file = {}
        for (fi, t), raw in zip(midx, model_raw):
            per_file.setdefault(fi, []).append((t, raw))
        for fi, (d, tracks, b, layout) in enumerate(files):
            try:
                impl = json.loads(impl_raw[fi])
            except Exception:
                fails.append(("worker_%d" % fi, {"kind": "input", "what": "harness worker died", "raw": impl_raw[fi][:200], "file": d.hex()}))
                continue
            if impl.get("open") != "ok":
                fails.append(("open_%s_%d" % (profile, fi), {"kind": "input", "what": "reader rejects a consistent file", "open": impl.get("open"), "file": d.hex(), "base": b}))
                continue
            calls = {}
            for kind, tid, sid, v in impl["calls"]:
                calls.setdefault(tid, {}).setdefault(kind, {})[sid] = v
            dup_ids = len(set(t["id"] for t in tracks)) != len(tracks)
            for t, raw in per_file.get(fi, []):
                try:
                    mo = json.loads(raw)
                except Exception:
                    ties.append(("model_%d" % fi, {"kind": "correspondence", "what": "model driver failed", "raw": raw[:300]}))
                    continue
                n = len(t["sizes"])
                if profile == "debug":
                    stats["tracks"] += 1
                    stats["samples"] += n
                    stats["consistent"] += 1 if mo.get("consistent") else 0
                    stats["with_base"] += 1 if b else 0
                    stats["co64"] += 1 if t.get("co64") else 0
                    stats["fixed_size"] += 1 if t["tables"]["stsz"][0] else 0
                    stats["with_ctts"] += 1 if t["tables"]["ctts"] is not None else 0
                    stats["with_stss"] += 1 if t["tables"]["stss"] is not None else 0
                    if n:
                        distinct.add(json.dumps(t["tables"], sort_keys=True))
                if not mo.get("consistent") or not mo.get("derive"):
                    ties.append(("generator_%d" % fi, {"kind": "correspondence", "what": "generated tables are not `consistent` (generator or specification bug)", "tables": t["tables"]}))
                    continue
                if dup_ids:
                    continue
                c = calls.get(t["id"], {})
                if c.get("cnt", {}).get(0) != "ok:%d" % n:
                    fails.append(("count_%s_%d" % (profile, fi), {"kind": "input", "what": "sample_count", "expected": n, "observed": c.get("cnt", {}).get(0), "tables": t["tables"], "file": d.hex()}))
                    continue
                exp = expected_from(mo, d if b == 0 else b"", n)
                for e in mo["ids"]:
                    k = int(e["k"], 16)
                    got_off, got_rs = c.get("off", {}).get(k), c.get("rs", {}).get(k)
                    if got_rs is None:
                        continue
                    x = exp[k]
                    if x is not None:
                        want = dict(x["rs"])
                        if b != 0:
                            off = int(e["spec"]["off"], 16) - b
                            want["bytes"] = d[off:off + want["len"]].hex() if 0 <= off and off + want["len"] <= len(d) else None
                        if want["bytes"] is None:
                            # the declared sample lies (partly) beyond the bytes the file carries: the offset is defined, reading must not yield a sample
                            bad = got_off != x["off"] or got_rs.get("r") == "some"
                        else:
                            bad = got_off != x["off"] or got_rs != want
                        if bad:
                            fails.append(("sample_%s_%d_%d" % (profile, fi, k), {"kind": "input", "what": "sample %d of track %d differs from the ISO sample-table semantics" % (k, t["id"]),
                                                                                  "expected": {"off": x["off"], "rs": want}, "observed": {"off": got_off, "rs": got_rs},
                                                                                  "tables": t["tables"], "base": b, "layout": layout, "file": d.hex()}))
                            break
                    else:
                        if got_rs.get("r") not in ("none", "data"):
                            fails.append(("outside_%s_%d_%d" % (profile, fi, k), {"kind": "input", "what": "id %d outside 1..=%d yields %s" % (k, n, got_rs.get("r")), "observed": got_rs,
                                                                                   "tables": t["tables"], "file": d.hex()}))
                            break
                    if b == 0:
                        mo_off, mo_rs = model_view(e)
                        if got_off != mo_off or got_rs != mo_rs:
                            ties.append(("model_vs_impl_%s_%d_%d" % (profile, fi, k), {"kind": "correspondence", "what": "lookup model and implementation differ on id %d" % k,
                                                                                         "model": {"off": mo_off, "rs": mo_rs}, "impl": {"off": got_off, "rs": got_rs},
                                                                                         "tables": t["tables"], "file": d.hex()}))
                            break
    # ---- virtual tracks (up to 2^32-1 samples described by a few runs): offsets for ids at every run / chunk boundary, against run_semantics
    vts = virtual_tracks()
    stats["virtual_tracks"] = len(vts)
    stats["virtual_lookups"] = 0
    for profile in ("debug", "release"):
        vfiles, vlines = [], []
        for vt in vts:
            r, _, _ = isogen.build_movie([dict(vt)], "moov_first")
            tb = vt["tables_override"]
            N = tb["stsz"][1]
            ids = {1, 2, N - 1, N, N + 1, N // 2, N // 2 + 1, 0xffffffff}
            fs = 1
            offs = tb["co64"]
            for i, (fc, spc, _) in enumerate(tb["stsc"]):
                last_chunk = tb["stsc"][i + 1][0] - 1 if i + 1 < len(tb["stsc"]) else len(offs)
                for c in range(fc, last_chunk + 1):
                    ids |= {fs - 1, fs, fs + 1}
                    fs += spc
            acc = 1
            for cnt, _ in tb["stts"]:
                acc += cnt
                ids |= {acc - 1, acc}
            ids = sorted(i for i in ids if 0 <= i <= 0xffffffff)
            calls = [["cnt", 1, 0]] + [["off", 1, i] for i in ids] + [["off", 1, i] for i in reversed(ids)]
            vfiles.append((bytes(r.data), tb, ids))
            vlines.append(json.dumps({"cmd": "read", "file": bytes(r.data).hex(), "calls": calls}))
        vraw = common.harness_run("run", profile, vlines)
        for (d, tb, ids), raw in zip(vfiles, vraw):
            try:
                impl = json.loads(raw)
            except Exception:
                fails.append(("virtual_worker_%d" % len(fails), {"kind": "input", "what": "harness worker died / timed out on a file whose tables describe %d samples" % tb["stsz"][1], "tables": tb, "file": d.hex()}))
                continue
            if impl.get("open") != "ok":
                fails.append(("virtual_open_%d" % len(fails), {"kind": "input", "what": "reader rejects a consistent file (%s)" % impl.get("open"), "tables": tb, "file": d.hex()}))
                continue
            for kind, tid, sid, v in impl["calls"]:
                stats["virtual_lookups"] += 1
                if kind == "cnt":
                    want = "ok:%d" % tb["stsz"][1]
                else:
                    e = run_semantics(tb, sid)
                    want = None if e is None else "ok:%d" % e[0]
                bad = (v != want) if want is not None else (isinstance(v, str) and v.startswith("ok:"))
                if bad:
                    fails.append(("virtual_%s_%d" % (profile, len(fails)), {"kind": "input", "what": "%s(track 1, sample %d) on run-length tables describing %d samples: the tables define %s, the reader returns %s"
                                                                            % ("sample_count" if kind == "cnt" else "sample_offset", sid, tb["stsz"][1], want or "no such sample", v),
                                                                            "tables": tb, "profile": profile, "file": d.hex()}))
                    break
    rep.coverage.update({
        "evaluations": 2 * len(files), "distinct_nontrivial": len(distinct),
        "rule": "exhaustive for N<=%d samples: every composition of N into chunks x stsc grouping (maximal / one run per chunk) x fixed/variable sizes with zeros x "
                "stts/ctts run groupings x ctts present/absent x every stss subset (N<=3; 6 subsets above) x stco/co64, alternating moov-first/mdat-first layouts; "
                "plus seeded random 1-3 interleaved tracks up to 120 samples incl. files placed at stream positions around 2^32, 2^40, 2^62; debug and release; "
                "non-trivial = distinct table sets with at least one sample" % (4 if rep.tier == "quick" else 6),
        "input_distribution": stats})
    rep.coverage["samples"] = [{"tables": files[37][1][0]["tables"]}, {"tables": files[-1][1][0]["tables"]}]
    rep.assumptions = ["gen/isogen.py renders the tables faithfully (a rendering error shows up as a failing case, never as a pass)",
                       "harness/run is the compiled /repo library", "ocaml/driver.ml glue"]
    for name, payload in fails[:5]:
        rep.violation(name, payload)
    if fails:
        return
    if not proof_ok:
        rep.violation("proof_obligation", {"kind": "obligation", "what": "Props/C03 no longer checks", "details": details,
                                           "searched": "%d files x 2 profiles against the extracted specification: no failing input" % len(files)}, no_input=True)
        return
    for name, payload in ties[:5]:
        payload["searched"] = "%d files x 2 profiles: the specification oracle found no failing input" % len(files)
        rep.violation(name, payload, no_input=True)
