"""C12 — the parse result is independent of physical layout choices.

proof:           Props/C12.v: hdr64_equiv (64-bit headers), skip_unknown (every iterating container and the top-level loop skip unknown/free boxes),
                 tail_ignored (spare bytes after fixed-layout / table boxes), order_irrelevant (different-typed siblings commute), layout_invariance_* for ten
                 containers and the top level, sample offsets shift with the data
correspondence:  the extracted reader model vs the real reader on every layout variant
oracle:          metamorphic, on the real reader: all layout variants of one logical movie must give the same tracks, accessors, metadata and per-sample
                 results, with sample offsets shifted by exactly the layout change (computed from where the variant's mdat payload starts)
"""
import copy
import random

import common
import isogen
import readcheck

LEVEL = "proof"
CONE = ["Props/C12.v", "Props/C12Tree.v", "Props/C12Frag.v", "Proofs/FragLayout.v", "Proofs/LayoutTreeMono.v", "Proofs/LayoutTreeRefute.v", "Proofs/LayoutTreeKit.v", "Proofs/LayoutTree.v", "Proofs/LayoutTree2.v",
        "Proofs/LayoutTree3.v", "Proofs/LayoutTreeEx.v", "Proofs/LayoutKit.v", "Proofs/LayoutProofs.v", "Proofs/LayoutMore.v", "Proofs/LayoutOpen.v", "Proofs/LayoutShift.v",
        "Proofs/LayoutTailFixed.v", "Proofs/LayoutTailTbl.v"]
ITER = {b"moov", b"trak", b"mdia", b"minf", b"stbl", b"udta", b"mvex", b"dinf"}
# sample entries that search their child boxes for the codec configuration (avc1 -> avcC, mp4a -> esds): boxes may be inserted among the child boxes
ENTRY_ITER = {b"avc1", b"mp4a"}
PADDABLE = {b"mvhd", b"tkhd", b"mdhd", b"vmhd", b"smhd", b"stts", b"ctts", b"stsc", b"stsz", b"stss", b"stco", b"co64", b"hdlr"}
LARGE_OK = ITER | PADDABLE | {b"stsd", b"dinf", b"ftyp", b"free", b"meta", b"ilst"}


def junk(rng):
    typ = rng.choice([b"free", b"skip", b"uuid", b"zzzz", bytes(rng.randrange(97, 123) for _ in range(4))])
    if typ in (b"moov", b"trak", b"mdat", b"ftyp", b"moof", b"emsg"):
        typ = b"free"
    return isogen.Box(typ, [isogen.Raw(bytes(rng.randrange(256) for _ in range(rng.choice([0, 1, 8, 33]))))], large=rng.random() < 0.2)


def transform(node, rng, p_ins=0.5, p_perm=0.5, p_large=0.25, p_pad=0.4):
    """a layout variant of a Box tree (same logical content)"""
    if not isinstance(node, isogen.Box):
        return node
    n = isogen.Box(node.typ, [transform(i, rng, p_ins, p_perm, p_large, p_pad) for i in node.items], node.large, node.pad)
    if n.typ in ITER:
        kids = n.items
        if rng.random() < p_perm:
            # shuffle, keeping the relative order of same-typed children
            order = list(range(len(kids)))
            rng.shuffle(order)
            by_type = {}
            for i, k in enumerate(kids):
                by_type.setdefault(k.typ if isinstance(k, isogen.Box) else None, []).append(k)
            new = []
            for i in order:
                t = kids[i].typ if isinstance(kids[i], isogen.Box) else None
                new.append(by_type[t].pop(0))
            kids = new
        if rng.random() < p_ins:
            for _ in range(rng.randint(1, 3)):
                kids.insert(rng.randint(0, len(kids)), junk(rng))
        n.items = kids
    if n.typ in ENTRY_ITER and rng.random() < max(p_ins, 0.0) and p_ins > 0:
        first = next((i for i, k in enumerate(n.items) if isinstance(k, isogen.Box)), len(n.items))
        for _ in range(rng.randint(1, 2)):
            n.items.insert(rng.randint(first, len(n.items)), junk(rng))
    if n.typ in PADDABLE and rng.random() < p_pad:
        n.pad = bytes(rng.randrange(256) for _ in range(rng.choice([1, 4, 8, 13])))
        if rng.random() < 0.5:
            n.pad = bytes(len(n.pad))      # zero bytes: whole spare words that would read as (small) table entries if a decoder took them for entries
    if n.typ in LARGE_OK and rng.random() < p_large:
        n.large = True
    return n


FRAG_ITER = {b"moof", b"traf"}
FRAG_LARGE = {b"moof", b"traf", b"mfhd", b"tfhd", b"tfdt", b"trun", b"free"}


def transform_moof(node, rng):
    """a layout variant of a movie fragment box: children of moof / traf in any order (same-typed children keep their order), junk boxes inserted,
    64-bit size headers on any box"""
    if not isinstance(node, isogen.Box):
        return node
    n = isogen.Box(node.typ, [transform_moof(i, rng) for i in node.items], node.large, node.pad)
    if n.typ in FRAG_ITER:
        kids = n.items
        if rng.random() < 0.7:
            order = list(range(len(kids)))
            rng.shuffle(order)
            by_type = {}
            for k in kids:
                by_type.setdefault(k.typ if isinstance(k, isogen.Box) else None, []).append(k)
            kids = [by_type[kids[i].typ if isinstance(kids[i], isogen.Box) else None].pop(0) for i in order]
        if rng.random() < 0.5:
            for _ in range(rng.randint(1, 2)):
                kids.insert(rng.randint(0, len(kids)), junk(rng))
        n.items = kids
    if n.typ in FRAG_LARGE and rng.random() < 0.25:
        n.large = True
    return n


def fragmented_groups(rng, ngroups, nvar):
    """layout variants of fragmented movies: (label, case dict) lists; the first of each group is the base layout"""
    groups = []
    bases = ["moof", "explicit", "explicit_end"]
    for g in range(ngroups):
        ntr = rng.choice([1, 2])
        tracks = [{"id": j + 1, "kind": rng.choice(["avc", "aac"]), "ts": 1000} for j in range(ntr)]
        clock = {t["id"]: 0 for t in tracks}
        cnt = {t["id"]: 1 for t in tracks}
        frags = []
        for f in range(rng.randint(1, 3)):
            fr = []
            chosen = rng.sample(tracks, rng.randint(1, ntr))
            # several track fragments of the same track inside one movie fragment (legal: zero or more traf per track)
            while rng.random() < 0.3 and len(chosen) < 4:
                chosen.insert(rng.randint(0, len(chosen)), rng.choice(chosen))
            for t in chosen:
                k = rng.choice([1, 2, 3])
                per = rng.random() < 0.5
                tf = {"track_id": t["id"], "base": rng.choice(bases), "tfhd_dur": rng.choice([None, 20]), "tfdt": clock[t["id"]], "tfdt_v": rng.choice([0, 1]),
                      "durations": [rng.choice([1, 33]) for _ in range(k)] if per else None, "sizes": [rng.choice([1, 2, 9]) for _ in range(k)],
                      "cts": [rng.choice([0, 7, -7]) for _ in range(k)] if rng.random() < 0.5 else None, "k0": cnt[t["id"]], "moof_flag": rng.random() < 0.3}
                clock[t["id"]] += sum(tf["durations"]) if per else k * (tf["tfhd_dur"] if tf["tfhd_dur"] is not None else 10)
                cnt[t["id"]] += k
                fr.append(tf)
            frags.append(fr)
        variants = []
        for v in range(nvar):
            seed = rng.randrange(1 << 30)
            tfm = None if v == 0 else (lambda box, fi, seed=seed: transform_moof(box, random.Random(seed * 131 + fi)))
            # every other group: a movie extends header box and one trex per track with DIFFERENT defaults; the variants move the mehd among the trex boxes
            # (the trex boxes keep their relative order: which of several same-typed boxes a reader keeps is not a layout question)
            if g % 2 == 1:
                kw = {"trex_durs": {t["id"]: 10 + 7 * j for j, t in enumerate(tracks)}, "mehd_dur": 12345,
                      "mvex_order": (lambda n, v=v: [x for x in range(1, n)][:(v % n)] + [0] + [x for x in range(1, n)][(v % n):])}
            else:
                kw = {"trex_dur": 10}
            init, fin = isogen.build_fragmented(copy.deepcopy(tracks), copy.deepcopy(frags), moof_transform=tfm,
                                                extra_between=([] if v % 2 == 0 else [junk(random.Random(seed))]), **kw)
            m1, _ = fin(len(init))
            m0, _ = fin(0)
            variants.append(("f%d.v%d.single" % (g, v), {"data": init + m1}))
            variants.append(("f%d.v%d.segment" % (g, v), {"data": init, "frag": m0}))
        groups.append(variants)
    return groups


def logical_frag(impl):
    """fragmented variants: everything except absolute offsets (the bytes read_sample returns pin the offsets) and the size"""
    def strip(d):
        return {"open": d.get("open"), "open_frag": d.get("open_frag"), "acc": {k: v for k, v in d.get("acc", {}).items() if k != "size"}, "tracks": d.get("tracks"),
                "calls": [c for c in d.get("calls", []) if c[0] != "off"]}
    out = strip(impl)
    if isinstance(impl.get("frag"), dict):
        out["frag"] = strip(impl["frag"])
    return out


def logical(impl, payload_start):
    """what must be invariant: everything except absolute offsets, which are made relative to the mdat payload"""
    d = {"open": impl.get("open"), "acc": {k: v for k, v in impl.get("acc", {}).items() if k != "size"}, "tracks": impl.get("tracks"), "meta": impl.get("meta")}
    calls = []
    for kind, tid, sid, v in impl.get("calls", []):
        if kind == "off" and isinstance(v, str) and v.startswith("ok:"):
            v = "ok:+%d" % (int(v[3:]) - payload_start)
        calls.append([kind, tid, sid, v])
    d["calls"] = calls
    return d


def check(rep):
    proof_ok, details = common.proof_layer(rep, ["C12", "C12Tree", "C12Frag"], CONE, extra_targets=["theories/Extract/Extract.vo"])
    with common.Lock():
        hb_ok, hb_log = common.harness_build(["run"])
        ob_ok, ob_log = common.ocaml_build()
    if not ob_ok or not hb_ok:
        rep.violation("build", {"kind": "correspondence", "what": "harness or extracted model does not build", "log": (hb_log + ob_log)[-3000:]}, no_input=True)
        return
    rng = random.Random(rep.seed * 7919 + 12)
    quick = rep.tier == "quick"
    groups = []   # list of [ (label, data, payload_start) ... ] ; first is the base
    udta = isogen.udta([isogen.meta([isogen.ilst([isogen.ilst_item(isogen.TITLE, 1, b"Layout"), isogen.ilst_item(isogen.YEAR, 1, b"2001")])])])
    for g in range(40 if quick else 400):
        trs = readcheck.small_tracks(rng, maxn=8)
        variants = []
        for v in range(6 if quick else 12):
            layout = "mdat_first" if v % 3 != 2 else "moov_first"
            extra = [] if v % 2 == 0 else [junk(rng) for _ in range(rng.randint(1, 2))]
            t2 = copy.deepcopy(trs)
            r, tracks, nodes = isogen.build_movie(t2, layout, extra_top=extra, udta=copy.deepcopy(udta) if g % 2 else None, large_mdat=(v in (3, 5)),
                                                  mdat_to_eof=(layout == "moov_first" and g % 3 == 0))
            if v > 0 and layout == "mdat_first":
                # transform everything after the mdat (the moov) and the ftyp; offsets do not move
                nodes = [transform(nodes[0], rng) if False else nodes[0]] + nodes[1:-1] + [transform(nodes[-1], rng)]
                r = isogen.render(nodes)
            mdat = next(b for b in r.boxes if b[3] == "/mdat")
            variants.append(("g%d.v%d.%s" % (g, v, layout), bytes(r.data), mdat[0] + mdat[2]))
        groups.append(variants)
    flat = [(gi, vi, lab, d, ps) for gi, vs in enumerate(groups) for vi, (lab, d, ps) in enumerate(vs)]
    fails, ties = [], []
    stats = {"movies": len(groups), "variants": len(flat), "open_ok": 0, "model_skipped": 0}
    for profile in ("debug", "release"):
        res = readcheck.run_both([{"data": d} for _, _, _, d, _ in flat], profile)
        base = {}
        for (gi, vi, lab, d, ps), (impl, model) in zip(flat, res):
            if "dead" in impl:
                fails.append(("dead_%d" % len(fails), {"kind": "input", "what": "worker died", "case": lab, "file": d.hex()}))
                continue
            lg = logical(impl, ps)
            if vi == 0:
                base[gi] = (lg, lab, d)
                if impl.get("open") != "ok":
                    fails.append(("base_%d" % len(fails), {"kind": "input", "what": "base layout does not open (%s)" % impl.get("open"), "case": lab, "file": d.hex()}))
            elif gi in base and lg != base[gi][0]:
                b = base[gi][0]
                key = next(k for k in b if b[k] != lg[k])
                detail = None
                if key == "calls":
                    detail = next(([x, y] for x, y in zip(b["calls"], lg["calls"]) if x != y), None)
                elif key == "tracks" and b["tracks"] and lg["tracks"]:
                    detail = next(([x, y] for x, y in zip(b["tracks"], lg["tracks"]) if x != y), [len(b["tracks"]), len(lg["tracks"])])
                fails.append(("layout_%s_%d" % (profile, len(fails)), {"kind": "input", "what": "layout variant differs from the base layout in %s" % key, "difference": detail,
                                                                       "case": lab, "base_case": base[gi][1], "profile": profile, "file": d.hex(), "base_file": base[gi][2].hex()}))
            t = readcheck.correspondence(impl, model)
            if t == "skipped":
                stats["model_skipped"] += 1
            elif t:
                ties.append(("model_vs_impl_%s_%d" % (profile, len(ties)), dict(t, kind="correspondence", case=lab, profile=profile, file=d.hex())))
            if profile == "debug":
                stats["open_ok"] += 1 if impl.get("open") == "ok" else 0
    # ---- fragmented movies: layout variants of the movie fragment boxes
    fgroups = fragmented_groups(rng, 12 if quick else 120, 4 if quick else 6)
    fflat = [(gi, vi, lab, c) for gi, vs in enumerate(fgroups) for vi, (lab, c) in enumerate(vs)]
    stats["fragmented_movies"] = len(fgroups)
    stats["fragmented_variants"] = len(fflat)
    for profile in ("debug", "release"):
        res = readcheck.run_both([c for _, _, _, c in fflat], profile)
        base = {}
        for (gi, vi, lab, c), (impl, model) in zip(fflat, res):
            kind = lab.rsplit(".", 1)[1]
            if "dead" in impl:
                fails.append(("dead_%d" % len(fails), {"kind": "input", "what": "worker died", "case": lab, "file": c["data"].hex(), "frag": c.get("frag", b"").hex()}))
                continue
            lg = logical_frag(impl)
            if vi < 2:
                base[(gi, kind)] = (lg, lab, c)
                if impl.get("open") != "ok" or (kind == "segment" and impl.get("open_frag") != "ok"):
                    fails.append(("fbase_%d" % len(fails), {"kind": "input", "what": "base layout of a fragmented movie does not open (%s / %s)" % (impl.get("open"), impl.get("open_frag")),
                                                            "case": lab, "file": c["data"].hex(), "frag": c.get("frag", b"").hex()}))
            elif (gi, kind) in base and lg != base[(gi, kind)][0]:
                b = base[(gi, kind)][0]
                key = next(k for k in b if b.get(k) != lg.get(k))
                fails.append(("frag_layout_%s_%d" % (profile, len(fails)), {"kind": "input", "what": "layout variant of a fragmented movie differs from the base layout in %s" % key,
                                                                            "case": lab, "base_case": base[(gi, kind)][1], "profile": profile, "file": c["data"].hex(), "frag": c.get("frag", b"").hex(),
                                                                            "base_file": base[(gi, kind)][2]["data"].hex(), "base_frag": base[(gi, kind)][2].get("frag", b"").hex()}))
            t = readcheck.correspondence(impl, model)
            if t == "skipped":
                stats["model_skipped"] += 1
            elif t:
                ties.append(("model_vs_impl_%s_%d" % (profile, len(ties)), dict(t, kind="correspondence", case=lab, profile=profile, file=c["data"].hex(), frag=c.get("frag", b"").hex())))
    rep.coverage.update({"evaluations": 2 * (len(flat) + len(fflat)), "distinct_nontrivial": len(set(d for _, _, _, d, _ in flat)),
                         "rule": "logical movies from the C03 generator (1-2 tracks, all kinds, with/without metadata) x layout variants: media data before/after the movie header, 32- or 64-bit size header on the media data box, "
                                 "free/unknown boxes (32- and 64-bit headers) inserted at the top level and at random positions inside moov/trak/mdia/minf/stbl/udta/mvex, siblings of "
                                 "different types shuffled, 64-bit size headers on any box, spare bytes after fixed-layout and table boxes; fragmented movies (1-2 tracks, 1-3 fragments, three base modes) with the children of "
                                 "moof / traf in any order, junk boxes inserted, 64-bit headers on moof/traf/mfhd/tfhd/tfdt/trun, junk between fragments, as one stream and as init + media segment; every variant compared with the base layout",
                         "input_distribution": stats})
    rep.coverage["samples"] = [{"case": flat[i][2], "file": flat[i][3].hex()[:200]} for i in (1, len(flat) // 2)]
    rep.assumptions = ["gen/isogen.py renders the same logical movie in every variant (a generator slip shows as a failing case)", "harness/run is the compiled /repo library"]
    for name, payload in fails[:5]:
        rep.violation(name, payload)
    if fails:
        return
    if not proof_ok:
        rep.violation("proof_obligation", {"kind": "obligation", "what": "Props/C12 no longer checks", "details": details, "searched": "%d layout variants: all equal to their base" % len(flat)}, no_input=True)
        return
    for name, payload in ties[:5]:
        payload["searched"] = "%d layout variants: all equal to their base" % len(flat)
        rep.violation(name, payload, no_input=True)
