"""C17 — the muxer API is total: bad arguments are errors, never panics.

proof:           Props/C17.v (no call of the writer model panics, for any arguments, in either build mode)
correspondence:  extracted Writer model vs the real Mp4Writer incl. the per-call outcome classes on degenerate arguments
oracle:          catch_unwind around every real Mp4Writer call (debug = overflow checks on, release = wrapping);
                 when every call succeeded the C01/C02 oracles are applied to the output
"""
import random

import muxcheck
import muxgen

LEVEL = "proof"
CONE = ["Props/C17.v", "Props/C17Bytes.v", "Proofs/MuxTotal.v", "Proofs/EncTotal.v", "Model/Writer.v", "Model/WriterMoov.v"]
U32 = 1 << 32


def oracle_c17(r):
    impl = r["impl"]
    if "error" in impl:
        return {"what": "worker died (abort / stack overflow / OOM)", "impl": impl}
    if impl.get("start") == "panic":
        return {"what": "write_start panicked"}
    for i, s in enumerate(impl.get("statuses", [])):
        if s == "panic":
            return {"what": "call %d panicked" % i, "op": r["h"]["ops"][i]}
    if impl.get("end") == "panic":
        return {"what": "write_end panicked"}
    return None


def then_valid(r):
    """when every call succeeded, the output still satisfies the other muxer properties"""
    impl = r["impl"]
    if impl.get("end") != "ok" or any(s != "ok" for s in impl.get("statuses", [])):
        return None
    tracks, st = muxgen.spec(r["h"])
    if any(s != "ok" for s in st):
        return {"what": "a call outside the accepted domain returned Ok", "spec": st}
    # durations that overflow the u64 header fields are outside what any file can represent
    return muxcheck.oracle_c01(r) or muxcheck.oracle_c02(r)


def degenerate(rng, tier):
    hs = []
    weird_lang = [b"", b"a", b"ab", b"ENG", "\ufffd\ufffd\ufffd".encode(), b"abcd", "ééé".encode(), b"\x00\x00\x00", b"123", "\U0001F600ab".encode(), "a\u20acb".encode()]
    for lang in weird_lang:
        hs.append({"base": 0, "cfg": muxgen.DEFAULT_CFG, "ops": [{"add": muxgen.tc("avc", lang=lang)}, {"w": [1, 10, 0, True, "aa"]}]})
    for ts in (0, 1, U32 - 1):
        for mts in (0, 1, U32 - 1):
            for kind in muxgen.KINDS:
                cfg = dict(muxgen.DEFAULT_CFG, timescale=mts)
                hs.append({"base": 0, "cfg": cfg, "ops": [{"add": muxgen.tc(kind, ts=ts)}, {"w": [1, U32 - 1, -2 ** 31, False, "aa"]},
                                                           {"w": [1, U32 - 1, 2 ** 31 - 1, True, ""]}, {"w": [1, 0, 0, True, "bb"]}]})
    for n in (0, 1, 2, 3, 4, 65535, 65536, 70000):
        sps = ("67" * n)
        for m in (0, 1, 65535, 65536):
            hs.append({"base": 0, "cfg": muxgen.DEFAULT_CFG, "ops": [{"add": muxgen.tc("avc", sps=sps, pps="68" * m)}, {"w": [1, 1, 0, True, "aa"]}]})
    ps = muxgen.structured_param_sets()
    for i, sps in enumerate(ps):
        hs.append({"base": 0, "cfg": muxgen.DEFAULT_CFG, "ops": [{"add": muxgen.tc("avc", sps=sps, pps=ps[(i * 7 + 1) % len(ps)])}, {"w": [1, 1, 0, True, "aa"]}]})
        hs.append({"base": 0, "cfg": muxgen.DEFAULT_CFG, "ops": [{"add": muxgen.tc("avc", sps=sps[:8], pps=sps[:6])}, {"w": [1, 1, 0, True, "aa"]}]})
    # no tracks, unknown ids, id 0, id u32::MAX
    for tid in (0, 1, 2, U32 - 1):
        hs.append({"base": 0, "cfg": muxgen.DEFAULT_CFG, "ops": [{"w": [tid, 1, 0, True, "aa"]}]})
        hs.append({"base": 0, "cfg": muxgen.DEFAULT_CFG, "ops": [{"add": muxgen.tc("ttxt")}, {"w": [tid, 1, 0, True, "aa"]}]})
    # large samples (the 24-bit buffer_size_db field of AAC), many maximal durations (chunk_duration / mdhd duration accumulators)
    big = [70000, (1 << 16) + 1] + ([(1 << 24) - 1, 1 << 24, (1 << 24) + 5] if tier == "thorough" else [])
    for ln in big:
        for kind in ("aac", "avc"):
            hs.append({"base": 0, "cfg": muxgen.DEFAULT_CFG, "ops": [{"add": muxgen.tc(kind)}, {"w": [1, 1024, 0, True, {"fill": 1, "len": ln, "step": 0}]},
                                                                      {"w": [1, 1024, 0, True, "aa"]}]})
    for kind in muxgen.KINDS:
        hs.append({"base": 0, "cfg": dict(muxgen.DEFAULT_CFG, timescale=U32 - 1),
                   "ops": [{"add": muxgen.tc(kind, ts=1)}] + [{"w": [1, U32 - 1, 0, i % 2 == 0, "aa"]} for i in range(12)]})
    # empty brand list / maximal brand values
    hs.append({"base": 0, "cfg": {"major": 0, "minor": 0, "brands": [], "timescale": 0}, "ops": []})
    hs.append({"base": U32 - 5, "cfg": {"major": U32 - 1, "minor": U32 - 1, "brands": [U32 - 1] * 40, "timescale": U32 - 1},
               "ops": [{"add": muxgen.tc("vp9")}, {"w": [1, 1, 0, True, "aa"]}]})
    return hs


def random_wild(rng):
    h = muxgen.random_history(rng, bad=0.15, max_samples=60)
    # perturb configurations outside the documented domain
    for op in h["ops"]:
        if "add" in op and rng.random() < 0.3:
            a = op["add"]
            a["ts"] = rng.choice([0, 1, U32 - 1, a["ts"]])
            if a["kind"] == "avc" and rng.random() < 0.5:
                a["sps"] = "67" * rng.choice([0, 1, 3, 4])
            if rng.random() < 0.3:
                # a Rust String holds valid UTF-8 only: invalid sequences are replaced before the value reaches the API
                a["lang"] = bytes(rng.randrange(256) for _ in range(rng.randint(0, 5))).decode("utf-8", "replace").encode("utf-8").hex()
    if rng.random() < 0.2:
        h["cfg"] = dict(h["cfg"], timescale=rng.choice([0, 1, U32 - 1]))
    return h


def big_samples(rep):
    """samples of 2^24 bytes and more (the 24-bit esds buffer_size_db): real muxer only, the model is not asked to hold 16 MiB byte lists"""
    import json
    import common
    hs = []
    for kind in ("aac", "avc"):
        for ln in ((1 << 24) - 1, 1 << 24, (1 << 24) + 5):
            for n in (1, 2):
                hs.append({"base": 0, "cfg": muxgen.DEFAULT_CFG, "ops": [{"add": muxgen.tc(kind)}] + [{"w": [1, 1024, 0, True, {"fill": 3, "len": ln, "step": 0}]}] * n})
            hs.append({"base": 0, "cfg": muxgen.DEFAULT_CFG, "ops": [{"add": muxgen.tc(kind)}, {"w": [1, 1024, 0, True, {"fill": 3, "len": ln, "step": 0}]}, {"w": [1, 1024, 0, True, "aa"]}]})
            # the big sample LAST, after a small / an empty one (per-sample size table; a scan for the maximum must include its last entry)
            hs.append({"base": 0, "cfg": muxgen.DEFAULT_CFG, "ops": [{"add": muxgen.tc(kind)}, {"w": [1, 1024, 0, True, "aabb"]}, {"w": [1, 1024, 0, True, {"fill": 3, "len": ln, "step": 0}]}]})
            hs.append({"base": 0, "cfg": muxgen.DEFAULT_CFG, "ops": [{"add": muxgen.tc(kind)}, {"w": [1, 1024, 0, True, ""]}, {"w": [1, 1024, 0, False, "cc"]}, {"w": [1, 1024, 0, True, {"fill": 3, "len": ln, "step": 0}]}]})
    fails = []
    for profile in ("debug", "release"):
        outs = common.harness_run("run", profile, [json.dumps(muxgen.to_harness(h, want_bytes=False, readback=False)) for h in hs], shards=4, timeout=900)
        for h, raw in zip(hs, outs):
            try:
                o = json.loads(raw)
            except Exception:
                o = {"dead": raw}
            f = oracle_c17({"impl": o, "h": h}) if "dead" not in o else {"what": "worker died on a 16 MiB sample history: %s" % str(raw)[:60]}
            if f:
                fails.append(dict(f, kind="input", profile=profile, history={"cfg": h["cfg"], "ops": [h["ops"][0], "... %d samples, the large one of %d bytes" % (len(h["ops"]) - 1, max(o["w"][4]["len"] for o in h["ops"][1:] if isinstance(o["w"][4], dict)))]}))
    return fails, len(hs)


def check(rep):
    import common
    with common.Lock():
        common.harness_build(["run"])
    bf, nbig = big_samples(rep)
    for i, f in enumerate(bf[:3]):
        rep.violation("big_sample_%d" % i, f)
    rep.coverage["big_sample_histories"] = nbig
    if bf:
        return
    # more than 4 GiB of media data (the only way a box the muxer writes takes the 64-bit header form): every call returns Ok and the output is a file
    # — C13's sparse-stream pass, which writes 4 GiB + through the real muxer and reads it back
    import check_c13
    gf, ngiga = check_c13.big_payload(rep)
    rep.coverage["over_4gib_histories"] = ngiga
    for i, f in enumerate(gf[:3]):
        rep.violation("over_4gib_%d" % i, dict(f, kind="input"))
    if gf:
        return
    rng = random.Random(rep.seed * 7919 + 17)
    hs = degenerate(rng, rep.tier) + [random_wild(rng) for _ in range(300 if rep.tier == "quick" else 5000)]
    muxcheck.run_property(rep, "C17", CONE, hs, [oracle_c17, then_valid],
                          "degenerate argument pools on every public field (zero/maximal timescales, SPS/PPS lengths 0..70000, non-ISO language strings, "
                          "maximal durations and rendering offsets, large samples, unknown/zero/maximal track ids, no tracks, late add_track) + random histories "
                          "with perturbed configurations; every call under catch_unwind in the debug (overflow-checked) and release (wrapping) profiles", modules=["C17", "C17Bytes"])
