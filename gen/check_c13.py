"""C13 — 32-bit to 64-bit transitions in the muxer are lossless.

proof:           Props/C13.v (mdat size form, stco/co64 choice, header versions: unbounded N, no value is narrowed), Props/C01.v
correspondence:  extracted Writer model vs the real Mp4Writer on histories whose start position and cumulative durations land just below,
                 at and above each 2^32 boundary (the independent parser reads the forms from the real bytes)
oracle:          the real reader on the real output (every sample and duration intact) + the independent validator + the form rules
                 (64-bit form used iff the value does not fit 32 bits)
"""
import random

import muxcheck
import muxgen

LEVEL = "proof"
CONE = ["Props/C13.v", "Proofs/MuxTotal.v", "Model/Writer.v"]
U32 = 1 << 32


def oracle_c13(r):
    impl, iso = r["impl"], r["iso"]
    if impl.get("end") != "ok" or not iso or not iso.get("parse"):
        return None
    h2i = muxcheck.h2i
    for t in iso["tracks"]:
        tb = muxcheck.norm_tables(t["tables"])
        offs = tb["co64"] if tb["co64"] is not None else tb["stco"]
        need64 = any(o >= U32 for o in offs)
        if need64 != (tb["co64"] is not None) or (tb["co64"] is not None and tb["stco"] is not None):
            return {"what": "track %s: co64 used=%s but a 64-bit offset is needed=%s" % (t["id"], tb["co64"] is not None, need64), "offsets": offs[:8]}
        for name, (ver, dur) in (("tkhd", (h2i(t["tkhd"][0]), h2i(t["tkhd"][1]))), ("mdhd", (h2i(t["mdhd"][0]), h2i(t["mdhd"][2])))):
            if (ver == 1) != (dur >= U32):
                return {"what": "track %s: %s version %d with duration %d" % (t["id"], name, ver, dur)}
    ver, dur = h2i(iso["mvhd"][0]), h2i(iso["mvhd"][2])
    if (ver == 1) != (dur >= U32):
        return {"what": "mvhd version %d with duration %d" % (ver, dur)}
    off, hdr, size = [h2i(x) for x in iso["mdat"][0]]
    if (hdr == 16) != (size >= U32):
        return {"what": "mdat header length %d for size %d" % (hdr, size)}
    return None


def boundary_histories(rng, tier):
    hs = []
    # start positions: chunk offsets just below / at / above 2^32 (header ~ 0x30 bytes before the first chunk)
    for base in (U32 - 0x30 - 9, U32 - 0x30 - 8, U32 - 0x30 - 7, U32 - 0x30 - 1, U32 - 0x30, U32 - 0x2f, U32 - 1, U32, U32 + 5, (1 << 40) + 3, (1 << 62)):
        for kind in muxgen.KINDS:
            ops = [{"add": muxgen.tc(kind, ts=1000)}] + [{"w": [1, 1000, 0, i == 0, "%02x" % (17 * i) * (i + 3)]} for i in range(4)]
            hs.append({"base": base, "cfg": dict(muxgen.DEFAULT_CFG, brands=[muxgen.fourcc("isom")]), "ops": ops})
        ops = [{"add": muxgen.tc("avc", ts=1000)}, {"add": muxgen.tc("aac", ts=48000)}]
        for i in range(6):
            ops.append({"w": [1 + i % 2, 1000 if i % 2 == 0 else 48000, 0, True, "ab" * (i + 1)]})
        hs.append({"base": base, "cfg": muxgen.DEFAULT_CFG, "ops": ops})
    # cumulative durations around 2^32 in media, track and movie timescale
    for kind in muxgen.KINDS:
        for tts, mts in ((1000, 1000), (1, 1000), (1000, 1), (48000, 90000), (U32 - 1, 1), (1, U32 - 1)):
            for total in (U32 - 2, U32 - 1, U32, U32 + 1):
                # media duration = total
                durs = [U32 - 1, total - (U32 - 1)] if total >= U32 else [total // 2, total - total // 2]
                ops = [{"add": muxgen.tc(kind, ts=tts)}] + [{"w": [1, d, 0, True, "aa"]} for d in durs]
                hs.append({"base": 0, "cfg": dict(muxgen.DEFAULT_CFG, timescale=mts), "ops": ops})
                # track duration (movie timescale) = total: media duration ~ total * tts / mts
                md = -(-total * tts // mts)
                if 0 < md < 4 * U32 and md != total:
                    durs = []
                    left = md
                    while left > 0:
                        d = min(left, U32 - 1)
                        durs.append(d)
                        left -= d
                    ops = [{"add": muxgen.tc(kind, ts=tts)}] + [{"w": [1, d, 0, False, "bb"]} for d in durs]
                    hs.append({"base": 0, "cfg": dict(muxgen.DEFAULT_CFG, timescale=mts), "ops": ops})
    for _ in range(60 if tier == "quick" else 1500):
        h = muxgen.random_history(rng, bad=0.0, max_samples=30)
        h["base"] = rng.choice([U32 - rng.randint(1, 4000), U32 + rng.randint(0, 100), rng.randrange(1 << 62)])
        hs.append(h)
    return hs


def check(rep):
    rng = random.Random(rep.seed * 7919 + 13)
    hs = boundary_histories(rng, rep.tier)
    muxcheck.run_property(rep, "C13", CONE, hs, [muxcheck.oracle_c01, muxcheck.oracle_c02, oracle_c13],
                          "histories for every track kind whose first chunk offset lands at 2^32-9..2^32+5, 2^40, 2^62 (output starting at a non-zero stream position), "
                          "and whose cumulative media / track / movie durations land at 2^32-2..2^32+1 for six timescale pairs, plus random histories at random "
                          "start positions; read back with the real reader, validated by the independent parser, forms checked; debug and release. "
                          "(media data larger than 4 GiB is covered by the theorem mdat_size_form_lossless over unbounded N; this run does not write 4 GiB)")
