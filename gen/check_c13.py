"""C13 — 32-bit to 64-bit transitions in the muxer are lossless.

proof:           Props/C13.v (mdat size form, stco/co64 choice, header versions: unbounded N, no value is narrowed), Props/C01.v
correspondence:  extracted Writer model vs the real Mp4Writer on histories whose start position and cumulative durations land just below,
                 at and above each 2^32 boundary (the independent parser reads the forms from the real bytes)
oracle:          the real reader on the real output (every sample and duration intact) + the independent validator + the form rules
                 (64-bit form used iff the value does not fit 32 bits)
"""
import random

import muxcheck
import muxgen

LEVEL = "proof"
CONE = ["Props/C13.v", "Props/C13Open.v", "Proofs/MuxTotal.v", "Proofs/MuxOpenBase.v", "Model/Writer.v", "Model/WriterMoov.v"]
U32 = 1 << 32


def oracle_c13(r):
    impl, iso = r["impl"], r["iso"]
    if impl.get("end") != "ok" or not iso or not iso.get("parse"):
        return None
    h2i = muxcheck.h2i
    for t in iso["tracks"]:
        tb = muxcheck.norm_tables(t["tables"])
        offs = tb["co64"] if tb["co64"] is not None else tb["stco"]
        if offs is None:
            return {"what": "track %s is written with neither a 32-bit nor a 64-bit chunk offset table" % t["id"]}
        need64 = any(o >= U32 for o in offs)
        if need64 != (tb["co64"] is not None) or (tb["co64"] is not None and tb["stco"] is not None):
            return {"what": "track %s: co64 used=%s but a 64-bit offset is needed=%s" % (t["id"], tb["co64"] is not None, need64), "offsets": offs[:8]}
        for name, (ver, dur) in (("tkhd", (h2i(t["tkhd"][0]), h2i(t["tkhd"][1]))), ("mdhd", (h2i(t["mdhd"][0]), h2i(t["mdhd"][2])))):
            if (ver == 1) != (dur >= U32):
                return {"what": "track %s: %s version %d with duration %d" % (t["id"], name, ver, dur)}
    ver, dur = h2i(iso["mvhd"][0]), h2i(iso["mvhd"][2])
    if (ver == 1) != (dur >= U32):
        return {"what": "mvhd version %d with duration %d" % (ver, dur)}
    off, hdr, size = [h2i(x) for x in iso["mdat"][0]]
    if (hdr == 16) != (size >= U32):
        return {"what": "mdat header length %d for size %d" % (hdr, size)}
    return None


def boundary_histories(rng, tier):
    hs = []
    # start positions: chunk offsets just below / at / above 2^32 (header ~ 0x30 bytes before the first chunk)
    for base in (U32 - 0x30 - 9, U32 - 0x30 - 8, U32 - 0x30 - 7, U32 - 0x30 - 1, U32 - 0x30, U32 - 0x2f, U32 - 1, U32, U32 + 5, (1 << 40) + 3, (1 << 62)):
        for kind in muxgen.KINDS:
            ops = [{"add": muxgen.tc(kind, ts=1000)}] + [{"w": [1, 1000, 0, i == 0, "%02x" % (17 * i) * (i + 3)]} for i in range(4)]
            hs.append({"base": base, "cfg": dict(muxgen.DEFAULT_CFG, brands=[muxgen.fourcc("isom")]), "ops": ops})
        ops = [{"add": muxgen.tc("avc", ts=1000)}, {"add": muxgen.tc("aac", ts=48000)}]
        for i in range(6):
            ops.append({"w": [1 + i % 2, 1000 if i % 2 == 0 else 48000, 0, True, "ab" * (i + 1)]})
        hs.append({"base": base, "cfg": muxgen.DEFAULT_CFG, "ops": ops})
    # cumulative durations around 2^32 in media, track and movie timescale
    for kind in muxgen.KINDS:
        for tts, mts in ((1000, 1000), (1, 1000), (1000, 1), (48000, 90000), (U32 - 1, 1), (1, U32 - 1)):
            for total in (U32 - 2, U32 - 1, U32, U32 + 1):
                # media duration = total
                durs = [U32 - 1, total - (U32 - 1)] if total >= U32 else [total // 2, total - total // 2]
                ops = [{"add": muxgen.tc(kind, ts=tts)}] + [{"w": [1, d, 0, True, "aa"]} for d in durs]
                hs.append({"base": 0, "cfg": dict(muxgen.DEFAULT_CFG, timescale=mts), "ops": ops})
                # track duration (movie timescale) = total: media duration ~ total * tts / mts
                md = -(-total * tts // mts)
                if 0 < md < 4 * U32 and md != total:
                    durs = []
                    left = md
                    while left > 0:
                        d = min(left, U32 - 1)
                        durs.append(d)
                        left -= d
                    ops = [{"add": muxgen.tc(kind, ts=tts)}] + [{"w": [1, d, 0, False, "bb"]} for d in durs]
                    hs.append({"base": 0, "cfg": dict(muxgen.DEFAULT_CFG, timescale=mts), "ops": ops})
    # several tracks, one of which crosses 2^32 movie ticks, in every position of the track list (the movie header must widen with the longest)
    for order in ((5000000, 10), (10, 5000000), (10, 5000000, 20), (5000000, 4999999), (4294967, 4294968, 4294966)):
        ops = [{"add": muxgen.tc("ttxt", ts=1)} for _ in order]
        for ti, d in enumerate(order):
            ops.append({"w": [ti + 1, d, 0, True, "aa"]})
        hs.append({"base": 0, "cfg": dict(muxgen.DEFAULT_CFG, timescale=1000), "ops": ops})
    for _ in range(60 if tier == "quick" else 1500):
        h = muxgen.random_history(rng, bad=0.0, max_samples=30)
        h["base"] = rng.choice([U32 - rng.randint(1, 4000), U32 + rng.randint(0, 100), rng.randrange(1 << 62)])
        hs.append(h)
    return hs


def big_payload(rep):
    """media data just below / above 4 GiB through the harness's sparse stream (real Mp4Writer and Mp4Reader); returns failures"""
    import json
    import common
    M = 64 << 20
    fails = []
    kinds = ["avc"] if rep.tier == "quick" else muxgen.KINDS
    cases = []
    for kind in kinds:
        # last sample sizes placing the payload around the limits: the mdat box (16 + payload) needs the 64-bit form from payload 2^32-16 on
        # (last >= M-16); chunk offsets (first payload byte at |ftyp| + 16 = 32) reach 2^32 from last >= M-31 on
        for last in ((M - 4096, M - 17, M - 16, M - 8, M + 100) if rep.tier == "quick" else (M - 4096, M - 49, M - 48, M - 47, M - 33, M - 32, M - 31, M - 17, M - 16, M - 15, M - 8, M - 1, M, M + 100)):
            ops = [{"add": muxgen.tc(kind, ts=1000)}] + [{"w": [1, 1000, 0, i == 0, {"fill": (i % 250) + 1, "len": M, "step": 0}]} for i in range(63)]
            ops.append({"w": [1, 1000, 0, False, {"fill": 7, "len": last, "step": 0}]})
            cases.append({"base": 0, "cfg": dict(muxgen.DEFAULT_CFG, brands=[]), "ops": ops})
    lines = [json.dumps(muxgen.to_harness(h, sparse=True, max_samples=70, extra=1)) for h in cases]
    outs = common.harness_run("run", "release", lines, shards=min(4, len(lines)), timeout=1500)
    for h, raw in zip(cases, outs):
        try:
            o = json.loads(raw)
        except Exception:
            fails.append({"what": "worker died on a > 4 GiB history: %s" % raw[:80]})
            continue
        sizes = [muxgen.blob_len(op["w"][4]) for op in h["ops"] if "w" in op]
        fills = [op["w"][4]["fill"] for op in h["ops"] if "w" in op]
        desc = "64 samples, last of %d bytes, payload %d" % (sizes[-1], sum(sizes))
        if o.get("end") != "ok" or any(s != "ok" for s in o.get("statuses", [])):
            fails.append({"what": "muxing %s failed: %s %s" % (desc, o.get("statuses", [])[-2:], o.get("end"))})
            continue
        segs = o["segments"]

        def at(off, n):
            for sg in segs:
                st = sg[1]
                ln = len(sg[2]) // 2 if sg[0] == "raw" else sg[3]
                if st <= off < st + ln:
                    if sg[0] == "raw":
                        return bytes.fromhex(sg[2])[off - st:off - st + n]
                    return bytes([sg[2]]) * n
            return b""
        total = o["len"]
        ftyp_len = int.from_bytes(at(0, 4), "big")
        s32 = int.from_bytes(at(ftyp_len, 4), "big")
        if at(ftyp_len + 4, 4) != b"mdat":
            fails.append({"what": "no mdat box after ftyp (%s)" % desc})
            continue
        msize = int.from_bytes(at(ftyp_len + 8, 8), "big") if s32 == 1 else s32
        expect = 16 + sum(sizes)
        if msize != expect or (s32 == 1) != (expect >= U32):
            fails.append({"what": "mdat size field: form %s, value %d; the media data box spans %d bytes (%s)" % ("64-bit" if s32 == 1 else "32-bit", msize, expect, desc)})
            continue
        moov_off = ftyp_len + msize
        if at(moov_off + 4, 4) != b"moov" or int.from_bytes(at(moov_off, 4), "big") != total - moov_off:
            fails.append({"what": "the mdat size does not reach the moov box (%s)" % desc})
            continue
        rb = o.get("readback", {})
        if rb.get("open") != "ok":
            fails.append({"what": "the reader cannot open the > 4 GiB output (%s): %s" % (desc, rb.get("open"))})
            continue
        calls = {(k, t, s_): v for k, t, s_, v in rb["calls"]}
        if calls.get(("cnt", 1, 0)) != "ok:64":
            fails.append({"what": "sample count %s (%s)" % (calls.get(("cnt", 1, 0)), desc)})
            continue
        for k in range(1, 65):
            v = calls.get(("rs", 1, k), {})
            want = {"r": "some", "len": sizes[k - 1], "start": 1000 * (k - 1), "dur": 1000, "head": bytes([fills[k - 1]] * 8).hex(), "tail": bytes([fills[k - 1]] * 8).hex()}
            if {x: v.get(x) for x in want} != want:
                fails.append({"what": "sample %d of the > 4 GiB file reads back wrongly (%s)" % (k, desc), "expected": want, "observed": {x: v.get(x) for x in want}})
                break
        t = rb["tracks"][0]
        first = ftyp_len + 16
        need64 = any(first + sum(sizes[:i]) >= U32 for i in range(len(sizes)))
        if t.get("has_co64") != need64:
            fails.append({"what": "co64 used = %s (%s)" % (t.get("has_co64"), desc)})
    return fails, len(cases)


def check(rep):
    rng = random.Random(rep.seed * 7919 + 13)
    hs = boundary_histories(rng, rep.tier)
    import common
    with common.Lock():
        common.harness_build(["run"])
    bf, nbig = big_payload(rep)
    for i, f in enumerate(bf[:3]):
        rep.violation("big_payload_%d" % i, dict(f, kind="input"))
    rep.coverage["big_payload_histories"] = nbig
    if bf:
        return
    muxcheck.run_property(rep, "C13", CONE, hs, [muxcheck.oracle_c01, muxcheck.oracle_c02, oracle_c13],
                          "histories for every track kind whose first chunk offset lands at 2^32-9..2^32+5, 2^40, 2^62 (output starting at a non-zero stream position), "
                          "and whose cumulative media / track / movie durations land at 2^32-2..2^32+1 for six timescale pairs, plus random histories at random "
                          "start positions; read back with the real reader, validated by the independent parser, forms checked; debug and release. "
                          "Media data just below / above 4 GiB is muxed for real through a sparse stream (64 samples of 64 MiB; read back with the real reader, mdat size form and tiling checked on the real bytes).", modules=["C13", "C13Open"])
