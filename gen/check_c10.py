"""C10 — I/O failures surface as errors; short reads and writes are transparent.   (PARTIAL: see level_note)

proof:           Props/C10.v: in the model EVERY program (open, open fragment, read_sample, every encoder) returns Err EIo when the injected
                 fault is delivered (free-monad theorem `fault_surfaces`, instantiated), and a fault armed within the run's call count IS delivered
correspondence:  the reader model with the k-th stream call failing vs the real reader wrapped in a fault injector, for every k of the open phase
oracle:          real reader / muxer behind (a) a fault injector failing the k-th stream call (kinds: error, zero-length write) for EVERY k up to the
                 number of calls of the un-faulted run: the call in progress must return an I/O error, nothing may panic, later calls are unaffected;
                 (b) a transfer splitter delivering 1/2/3/7 bytes per call and sporadic ErrorKind::Interrupted: results and output bytes identical
"""
import json
import random

import common
import muxgen
import isogen
import readcheck

LEVEL = "proof"
CONE = ["Props/C10.v", "Proofs/GenericProofs.v", "Proofs/ShortTransfers.v", "Base/Prog.v"]


def reader_files(rng, quick):
    files = [(n, d) for n, d in readcheck.canned() if len(d) < 6000]
    for name, r, _ in readcheck.valid_files(rng, 4 if quick else 30):
        files.append((name, bytes(r.data)))
    # optional structures the muxer never writes: ES_Descriptor flags with their optional fields (dependsOn_ES_ID, URL, OCR_ES_Id), a data reference
    # with a location string, padded descriptor lengths — every read inside them is a fault point like any other
    for j, fl in enumerate((0x80, 0x40, 0x20, 0xe0) if not quick else (0x80, 0xe0)):
        url = isogen.Box("dinf", [isogen.full("dref", 0, 0, [isogen.F(4, 1, "count"), isogen.full("url ", 0, 0, [isogen.Raw(b"http://example.com/media\0")])])])
        tr = {"id": 1, "kind": "aac", "ts": 48000, "sizes": [4, 5, 6], "chunks": [3], "deltas": [1024] * 3, "cts": None, "sync": None, "co64": False,
              "entry": isogen.mp4a(2, 3, 2, 128000, 48000, pad=j % 3, es_flags=fl), "dinf": url if j % 2 == 0 else None}
        files.append(("esflags_%02x" % fl, bytes(isogen.build_movie([tr], "moov_first")[0].data)))
    # 64-bit size headers (size field 1 + largesize) on the media data box, on a trailing free box and on boxes at every level: the read of the
    # largesize is a stream call like any other
    import check_c12
    trs = readcheck.small_tracks(rng, ntr=2, maxn=5)
    r0, _, nodes = isogen.build_movie(trs, "moov_first", large_mdat=True)
    nodes = nodes + [isogen.Box("free", [isogen.Raw(b"\0" * 3)], large=True)]
    files.append(("hdr64_top", bytes(isogen.render(nodes).data)))
    nodes2 = nodes[:1] + [check_c12.transform(nodes[1], rng, p_ins=0.0, p_perm=0.0, p_large=0.7, p_pad=0.0)] + nodes[2:]
    files.append(("hdr64_nested", bytes(isogen.render(nodes2).data)))
    return files


def strip(impl):
    return {k: impl.get(k) for k in ("open", "acc", "tracks", "calls", "meta", "open_frag", "frag")}


def check(rep):
    proof_ok, details = common.proof_layer(rep, "C10", CONE, extra_targets=["theories/Extract/Extract.vo"])
    with common.Lock():
        hb_ok, hb_log = common.harness_build(["run"])
        ob_ok, ob_log = common.ocaml_build()
    if not ob_ok or not hb_ok:
        rep.violation("build", {"kind": "correspondence", "what": "harness or extracted model does not build", "log": (hb_log + ob_log)[-3000:]}, no_input=True)
        return
    rng = random.Random(rep.seed * 7919 + 10)
    quick = rep.tier == "quick"
    fails, ties = [], []
    evals = 0
    stats = {"reader_files": 0, "reader_fault_points": 0, "mux_histories": 0, "mux_fault_points": 0, "split_runs": 0, "delivered": 0}
    profile = "debug"
    # ---------------- reader: faults
    files = reader_files(rng, quick)
    stats["reader_files"] = len(files)
    base = readcheck.run_both([{"data": d} for _, d in files], profile, want_model=False, revisit=False)
    cases, meta = [], []
    for (name, d), (b, _) in zip(files, base):
        total = b.get("ops", 0)
        ks = range(total) if (not quick or total < 700) else sorted(set(list(range(0, 120)) + rng.sample(range(total), 500)))
        for k in ks:
            # the injected error takes every std::io::ErrorKind in turn (Other, UnexpectedEof, BrokenPipe, InvalidData, TimedOut): whatever its kind, a
            # failure of the stream is an I/O error of the call in progress, never a "malformed file"
            cases.append({"data": d, "fail": k, "fail_kind": (0, 2, 3, 4, 6)[k % 5]})
            meta.append((name, k, b))
    res = readcheck.run_both(cases, profile, want_model=True, revisit=False)
    stats["reader_fault_points"] = len(cases)
    evals += len(cases)
    for (name, k, b), c, (impl, model) in zip(meta, cases, res):
        if "dead" in impl:
            fails.append(("reader_dead_%d" % len(fails), {"kind": "input", "what": "worker died with fault at call %d" % k, "case": name, "fault_index": k, "file": c["data"].hex()}))
            continue
        ps = readcheck.panics_in(impl)
        if ps:
            fails.append(("reader_panic_%d" % len(fails), {"kind": "input", "what": "panic with the %d-th stream call failing: %s" % (k, ps[0]), "case": name, "fault_index": k, "file": c["data"].hex()}))
            continue
        if not impl.get("fired"):
            continue
        stats["delivered"] += 1
        if k < b["ops_open"]:
            if impl.get("open") != "io":
                fails.append(("reader_swallowed_%d" % len(fails), {"kind": "input", "what": "read_header returned %s although its %d-th stream call failed" % (impl.get("open"), k),
                                                                   "case": name, "fault_index": k, "file": c["data"].hex()}))
            if model is not None and "open" in model and model["open"] != impl.get("open"):
                ties.append(("fault_model_%d" % len(ties), {"kind": "correspondence", "what": "open outcome under fault differs", "model": model["open"], "impl": impl.get("open"),
                                                            "case": name, "fault_index": k, "file": c["data"].hex()}))
        else:
            # the fault hit one of the later calls: exactly that call reports io, everything else equals the baseline
            diff = [(x, y) for x, y in zip(impl.get("calls", []), b.get("calls", [])) if x != y]
            bad = [x for x, y in diff if not (x[3] == "io" or (isinstance(x[3], dict) and x[3].get("r") == "io"))]
            if len(diff) != 1 or bad or impl.get("open") != "ok":
                fails.append(("reader_call_fault_%d" % len(fails), {"kind": "input", "what": "fault at stream call %d (after open): expected exactly one call to report an I/O error" % k,
                                                                    "changed_calls": diff[:4], "case": name, "fault_index": k, "file": c["data"].hex()}))
    # ---------------- reader: short transfers and interrupts
    split_cases, smeta = [], []
    for (name, d), (b, _) in zip(files, base):
        for chunk, intr in ((1, 0), (2, 0), (3, 5), (7, 3), (0, 2)):
            split_cases.append({"data": d, "chunk": chunk, "intr": intr})
            smeta.append((name, chunk, intr, b))
    res = readcheck.run_both(split_cases, profile, want_model=False, revisit=False)
    stats["split_runs"] += len(split_cases)
    evals += len(split_cases)
    for (name, chunk, intr, b), c, (impl, _) in zip(smeta, split_cases, res):
        if strip(impl) != strip(b):
            k = next((x for x in strip(b) if strip(b)[x] != strip(impl).get(x)), "?")
            fails.append(("reader_split_%d" % len(fails), {"kind": "input", "what": "results differ when the stream delivers %d bytes per call / interrupts every %d calls (%s)" % (chunk, intr, k),
                                                           "case": name, "file": c["data"].hex()}))
    # ---------------- muxer: faults, zero-length writes, short writes
    hs = muxgen.exhaustive_small()
    hs = rng.sample(hs, 25 if quick else 250) + [muxgen.random_history(rng, bad=0.0, max_samples=25) for _ in range(10 if quick else 100)]
    stats["mux_histories"] = len(hs)
    base_lines = [json.dumps(muxgen.to_harness(h, readback=False)) for h in hs]
    base_out = [json.loads(x) for x in common.harness_run("run", profile, base_lines)]
    lines, lmeta = [], []
    for h, b in zip(hs, base_out):
        for k in range(b["ops"]):
            for kind in (0, 1, 2 + k % 5):
                lines.append(json.dumps(muxgen.to_harness(h, readback=False, fail=k, fail_kind=kind, stop_on_io=True)))
                lmeta.append((h, b, k, kind))
        for chunk, intr in ((1, 0), (3, 4), (7, 0)):
            lines.append(json.dumps(muxgen.to_harness(h, readback=False, chunk=chunk, intr=intr)))
            lmeta.append((h, b, None, (chunk, intr)))
    outs = common.harness_run("run", profile, lines)
    evals += len(lines)
    for (h, b, k, kind), raw in zip(lmeta, outs):
        try:
            o = json.loads(raw)
        except Exception:
            fails.append(("mux_dead_%d" % len(fails), {"kind": "input", "what": "worker died", "history": h, "fault_index": k}))
            continue
        sts = [o.get("start")] + o.get("statuses", []) + [o.get("end")]
        if k is None:
            stats["split_runs"] += 1
            if o.get("out") != b.get("out") or o.get("statuses") != b.get("statuses") or o.get("end") != b.get("end"):
                fails.append(("mux_split_%d" % len(fails), {"kind": "input", "what": "muxer output differs when the stream accepts %d bytes per call / interrupts every %d calls" % kind, "history": h}))
            continue
        stats["mux_fault_points"] += 1
        if "panic" in sts:
            fails.append(("mux_panic_%d" % len(fails), {"kind": "input", "what": "muxer panics when its %d-th stream call fails (kind %d)" % (k, kind), "history": h, "fault_index": k, "fault_kind": kind}))
            continue
        if o.get("fired"):
            stats["delivered"] += 1
            base_sts = [b.get("start")] + b.get("statuses", []) + [b.get("end")]
            changed = [i for i, (x, y) in enumerate(zip(sts, base_sts)) if x != y]
            if not changed or sts[changed[0]] != "io":
                fails.append(("mux_swallowed_%d" % len(fails), {"kind": "input", "what": "the %d-th stream call failed (kind %d) but no muxer call reported an I/O error at that point" % (k, kind),
                                                                "statuses": sts, "baseline": base_sts, "history": h, "fault_index": k, "fault_kind": kind}))
    rep.coverage.update({"evaluations": evals, "distinct_nontrivial": stats["delivered"],
                         "rule": "every index k of the k-th stream call of the un-faulted run x fault kinds {error, zero-length write} for each explored file / muxing history "
                                 "(reader: canned + generated files, all calls of open and of the sample reads; muxer: sampled small histories + random ones), plus transfer "
                                 "splitting at 1/2/3/7 bytes per call with sporadic Interrupted; distinct_nontrivial = fault points at which the fault was actually delivered",
                         "input_distribution": stats})
    rep.coverage["samples"] = [{"reader_file": files[0][0], "fault_index": 17}, {"mux_history": hs[0], "fault_index": 3, "kind": "zero-length write"}]
    rep.assumptions = ["std's read_exact/write_all and byteorder loop over short transfers and retry Interrupted: exercised here, not modelled (the model treats a transfer as atomic)",
                       "harness/run is the compiled /repo library (debug profile)"]
    for name, payload in fails[:5]:
        rep.violation(name, payload)
    if fails:
        return
    if not proof_ok:
        rep.violation("proof_obligation", {"kind": "obligation", "what": "Props/C10 no longer checks", "details": details,
                                           "searched": "%d fault points / split runs: no swallowed error, no panic" % evals}, no_input=True)
        return
    for name, payload in ties[:5]:
        payload["searched"] = "%d fault points / split runs: no swallowed error, no panic" % evals
        rep.violation(name, payload, no_input=True)
