"""Shared machinery of the codec properties C04 / C05: run single boxes through the real codec (harness `run`, cmd box)
and through the extracted codec model (driver `box`), compare value trees / positions / sizes / re-encoded bytes."""
import json

import common
import isogen
import rustdebug

SIB = bytes.fromhex("0000000c66726565deadbeef")   # a trailing sibling box


def run_boxes(datas, profile):
    mode = "d" if profile == "debug" else "r"
    iraw = common.harness_run("run", profile, [json.dumps({"cmd": "box", "data": d.hex()}) for d in datas])
    mraw = common.model_run(["box %s %s" % (mode, d.hex()) for d in datas])
    out = []
    for a, b in zip(iraw, mraw):
        try:
            ia = json.loads(a)
        except Exception:
            ia = {"dead": a}
        try:
            mb = json.loads(b)
        except Exception:
            mb = {"dead": b}
        out.append((ia, mb))
    return out


def correspondence(impl, model):
    if "dead" in model:
        return "skipped" if "Out_of_memory" in str(model["dead"]) else {"what": "model driver failed", "raw": str(model["dead"])[:200]}
    if "dead" in impl:
        return {"what": "implementation worker died", "raw": str(impl["dead"])[:100]}
    md = {"oof": "hang"}.get(model.get("dec"), model.get("dec"))
    if impl.get("hdr") != "ok":
        return None if md in ("io", "data") else {"what": "header read differs", "impl": impl.get("hdr"), "model": md}
    if impl.get("dec") != md:
        return {"what": "decode outcome differs", "impl": impl.get("dec"), "model": model.get("dec"), "site": model.get("site")}
    if md != "ok":
        return None
    if impl["pos"] != int(model["pos"], 16):
        return {"what": "final stream position differs", "impl": impl["pos"], "model": int(model["pos"], 16)}
    try:
        d = rustdebug.equal(rustdebug.parse(impl["val"]), rustdebug.from_model(model["val"]))
    except Exception as e:
        return {"what": "cannot compare value trees: %r" % e, "impl": impl["val"][:300]}
    if d:
        return {"what": "decoded value differs at " + d, "impl": impl["val"][:400]}
    if impl.get("size") != int(model["size"], 16) or impl.get("type") != int(model["type"], 16):
        return {"what": "box_size()/box_type() differ", "impl": [impl.get("size"), impl.get("type")], "model": [model["size"], model["type"]]}
    me = {"oof": "hang"}.get(model["enc"].strip('"'), model["enc"].strip('"')) if isinstance(model["enc"], str) else model["enc"]
    if impl.get("enc") != me:
        return {"what": "write_box outcome differs", "impl": impl.get("enc"), "model": me}
    if impl.get("enc") == "ok":
        if impl.get("ret") != int(model["ret"], 16):
            return {"what": "write_box return value differs", "impl": impl.get("ret"), "model": int(model["ret"], 16)}
        if impl.get("bytes") != model.get("bytes") and "IlstBox { items: {" in impl.get("val", ""):
            # HashMap iteration order decides the order of the items on re-encoding (unspecified): compare as multisets of bytes
            if len(impl["bytes"]) == len(model["bytes"]) and sorted(bytes.fromhex(impl["bytes"])) == sorted(bytes.fromhex(model["bytes"])):
                return None
        if impl.get("bytes") != model.get("bytes"):
            a, b = impl.get("bytes", ""), model.get("bytes", "")
            k = next((i for i in range(0, min(len(a), len(b)), 2) if a[i:i + 2] != b[i:i + 2]), min(len(a), len(b)))
            return {"what": "re-encoded bytes differ at byte %d" % (k // 2), "impl": a[max(0, k - 16):k + 32], "model": b[max(0, k - 16):k + 32]}
    return None


def oracle_c04(impl, data_len_box, hdr_len):
    """size exactness, return value, header, exact consumption, fixpoint. data_len_box = length of the box in the input (without sibling)"""
    if "dead" in impl:
        return {"what": "worker died"}
    if impl.get("hdr") != "ok" or impl.get("dec") != "ok":
        return None
    if impl["pos"] != data_len_box:
        return {"what": "decoding left the stream at %d, the box ends at %d" % (impl["pos"], data_len_box)}
    if impl.get("enc") != "ok":
        return None
    b = bytes.fromhex(impl["bytes"])
    if len(b) != impl["size"] or impl["ret"] != impl["size"]:
        return {"what": "box_size() = %d, write_box returned %d and wrote %d bytes" % (impl["size"], impl["ret"], len(b))}
    if len(b) >= 8 and (int.from_bytes(b[0:4], "big") != impl["size"] or int.from_bytes(b[4:8], "big") != impl["type"]):
        return {"what": "header carries size %d / type %08x, expected %d / %08x" % (int.from_bytes(b[0:4], "big"), int.from_bytes(b[4:8], "big"), impl["size"], impl["type"])}
    if impl.get("dec2") != "ok":
        return {"what": "the re-encoded bytes do not decode (%s)" % impl.get("dec2")}
    if impl.get("pos2") != len(b):
        return {"what": "decoding the re-encoded bytes consumed %s of %d bytes" % (impl.get("pos2"), len(b))}
    if not impl.get("eq2"):   # PartialEq of the real types (HashMap order independent)
        return {"what": "decode(encode(v)) differs from v", "v": impl["val"][:300]}
    return None
