"""C05 — box wire formats conform to the ISO/IEC 14496 layouts.

proof:           Props/C04.v (= C05): for every box the encoder's bytes are EXACTLY header ++ iso_xxx_payload v, where iso_xxx_payload (Iso/*.v) is written
                 from the standard without reference to the encoder, and the decoder inverts it; Props/C12.v hdr64_equiv for the 64-bit size form
correspondence:  extracted codec model (proved equal to the ISO layout) vs the real codec: value trees and bytes
oracle:          (a) boxes rendered by the independent reference renderer (gen/isogen.py, canonical forms) must re-encode to the same bytes;
                 (b) the 64-bit-header form and padded descriptor lengths decode to the same value as the compact form;
                 (c) codec parameters exposed by the reader (AVC profile/level/parameter sets, AAC object type / frequency index / channels / bitrate,
                     dimensions) equal the ones the reference renderer encoded
"""
import json
import random

import boxcheck
import boxgen
import common
import isogen
import readcheck
import rustdebug

LEVEL = "proof"
CONE = ["Props/C04.v", "Props/C05.v"] + ["Iso/%s" % f for f in sorted(__import__("os").listdir(common.COQ + "/theories/Iso")) if f.endswith(".v")]
CANON_PREFIX = ("ftyp", "mvhd", "tkhd", "mdhd", "mehd", "tfdt", "elst", "mfhd", "trex", "smhd", "vmhd", "tfhd", "trun", "stts", "ctts", "stss", "stco", "co64",
                "stsz_var", "stsc", "emsg", "hdlrc", "data", "vpcc", "avc1_1_1", "avc1_2_2", "avc1_1_3", "avc1_2_3", "avc1_31_", "hev1", "vp09", "tx3g", "mvex", "traf", "moof", "stsd", "stbl", "minf", "mdia", "trak")


def canon(val):
    """parsed Debug tree with HashMap entries sorted (iteration order is unspecified)"""
    def go(t):
        if t[0] == "map":
            return ("map", sorted([(go(k), go(v)) for k, v in t[1]], key=repr))
        if t[0] in ("list", "tuple"):
            return (t[0], [go(x) for x in t[1]])
        if t[0] == "some":
            return ("some", go(t[1]))
        if t[0] == "rec":
            return ("rec", t[1], [(f, go(v)) for f, v in t[2]])
        return t
    try:
        return go(rustdebug.parse(val))
    except Exception:
        return val


def large_variant(box):
    b = isogen.Box(box.typ, box.items, large=True, pad=box.pad)
    return b


def check(rep):
    proof_ok, details = common.proof_layer(rep, "C05", CONE, extra_targets=["theories/Extract/Extract.vo"])
    with common.Lock():
        hb_ok, hb_log = common.harness_build(["run"])
        ob_ok, ob_log = common.ocaml_build()
    if not ob_ok or not hb_ok:
        rep.violation("build", {"kind": "correspondence", "what": "harness or extracted model does not build", "log": (hb_log + ob_log)[-3000:]}, no_input=True)
        return
    cases = boxgen.all_cases(rep.seed * 7919 + 5, rep.tier)
    datas, meta = [], []
    for label, box in cases:
        plain = bytes(isogen.render([box]).data)
        large = bytes(isogen.render([large_variant(box)]).data)
        datas += [plain, large + boxcheck.SIB]
        meta += [(label, "compact", plain), (label, "hdr64", large)]
        # the 64-bit form on each CHILD box of a container (one child at a time)
        kids = [i for i, it in enumerate(box.items) if isinstance(it, isogen.Box)]
        for ci in kids:
            ch = box.items[ci]
            alt = isogen.Box(box.typ, box.items[:ci] + [isogen.Box(ch.typ, ch.items, large=True, pad=ch.pad)] + box.items[ci + 1:], box.large, box.pad)
            ab = bytes(isogen.render([alt]).data)
            datas += [plain, ab + boxcheck.SIB]
            meta += [(label + "/child%d" % ci, "compact", plain), (label + "/child%d" % ci, "hdr64", ab)]
            if ci == kids[-1]:
                # the last child in 64-bit form with NOTHING after the box (a cursor that lags behind would read past the end)
                datas += [plain, ab]
                meta += [(label + "/child%d/end" % ci, "compact", plain), (label + "/child%d/end" % ci, "hdr64", ab)]
    fails, ties = [], []
    known = [f for f in common.known_findings() if f["property"] == "C05" and f["status"] == "known"]
    seen = set()
    stats = {"boxes": len(cases), "canonical_checked": 0, "hdr64_checked": 0, "decode_ok": 0, "accessor_files": 0}

    def fail(name, payload, label):
        k = next((x for x in known if x.get("match") and x["match"] in label), None)
        if k:
            if k["id"] not in seen:
                seen.add(k["id"])
                rep.known(k["id"], payload["what"] + " on " + label)
        else:
            fails.append((name + "_%d" % len(fails), dict(payload, kind="input", case=label)))

    for profile in ("debug", "release"):
        res = boxcheck.run_boxes(datas, profile)
        for i in range(0, len(res), 2):
            (label, _, plain), (_, _, large) = meta[i], meta[i + 1]
            (ic, mc), (il, ml) = res[i], res[i + 1]
            short = label.split(":")[-1]
            t = boxcheck.correspondence(ic, mc)
            if t and t != "skipped":
                ties.append(("model_vs_impl_%s_%d" % (profile, len(ties)), dict(t, kind="correspondence", case=label, profile=profile, box=plain.hex())))
            if short.startswith(CANON_PREFIX) and "/child" not in short and ic.get("hdr") == "ok" and ic.get("dec") not in ("ok", None) and "_over" not in short:
                # (the "_over" cases are stsc tables whose derived first_sample exceeds u32: no sample number can name those samples; the decoder rejects them by design)
                # "bytes produced by the reference encoder decode to the same field values": they must decode at all
                fail("reference_rejected", {"what": "the reference rendering of a box is rejected by the decoder (%s)" % ic.get("dec"), "profile": profile, "box": plain.hex()}, label)
            if ic.get("dec") == "ok":
                stats["decode_ok"] += 1 if profile == "debug" else 0
                if short.startswith(CANON_PREFIX) and "/child" not in short and ic.get("enc") == "ok":
                    stats["canonical_checked"] += 1 if profile == "debug" else 0
                    if ic["bytes"] != plain.hex():
                        a, b = ic["bytes"], plain.hex()
                        k = next((j for j in range(0, min(len(a), len(b)), 2) if a[j:j + 2] != b[j:j + 2]), min(len(a), len(b)))
                        fail("layout", {"what": "bytes written differ from the reference rendering at byte %d" % (k // 2), "written": a[max(0, k - 16):k + 32],
                                        "reference": b[max(0, k - 16):k + 32], "profile": profile, "box": plain.hex()}, label)
                # 64-bit size header: same value, stream at the end of the box
                stats["hdr64_checked"] += 1 if profile == "debug" else 0
                if il.get("dec") != "ok":
                    fail("hdr64", {"what": "the 64-bit-header form does not decode (%s)" % il.get("dec"), "profile": profile, "box": large.hex()}, label)
                elif il.get("val") != ic.get("val") and canon(il.get("val")) != canon(ic.get("val")):
                    fail("hdr64", {"what": "the 64-bit-header form decodes to a different value", "compact": ic.get("val", "")[:300], "hdr64": il.get("val", "")[:300],
                                   "profile": profile, "box": large.hex()}, label)
                elif il.get("pos") != len(large):
                    fail("hdr64", {"what": "after the 64-bit-header form the stream is at %s, the box ends at %d" % (il.get("pos"), len(large)), "profile": profile, "box": large.hex()}, label)
        # padded descriptor lengths decode identically
        for aot, fi, ch in ((2, 3, 2), (5, 12, 7), (29, 4, 6), (1, 0, 1)):
            outs = boxcheck.run_boxes([bytes(isogen.render([isogen.mp4a(aot, fi, ch, 96000, 44100, pad)]).data) for pad in (0, 1, 2, 3)], profile)
            vals = [o[0].get("val") for o in outs]
            if len(set(vals)) != 1 or outs[0][0].get("dec") != "ok":
                fail("desc_padding", {"what": "esds with padded descriptor lengths decodes differently from the compact form", "values": [str(v)[:200] for v in vals], "profile": profile},
                     "mp4a_%d_%d_%d" % (aot, fi, ch))
    # (c) codec parameters exposed by the reader
    rng = random.Random(rep.seed * 7919 + 55)
    tbl = common.gen_tables()
    aots = {v: n for v, n in tbl["enums"]["AudioObjectType"]["tryfrom"]}
    sfis = {v: n for v, n in tbl["enums"]["SampleFreqIndex"]["tryfrom"]}
    chans = {v: n for v, n in tbl["enums"]["ChannelConfig"]["tryfrom"]}
    files, exp = [], []
    combos = [(a, f, c) for a in sorted(aots) for f in sorted(sfis) for c in sorted(chans)]
    if rep.tier == "quick":
        combos = [x for i, x in enumerate(combos) if i % 9 == 0] + [(a, 3, 2) for a in sorted(aots)]
    for a, f, c in combos:
        br = rng.choice([0, 64000, 320000])
        tr = [{"id": 1, "kind": "aac", "ts": 48000, "sizes": [3], "chunks": [1], "deltas": [1024], "cts": None, "sync": None, "co64": False}]
        r, tracks, nodes = isogen.build_movie(tr)
        # swap in the wanted esds
        stsd = nodes[1].find("trak")[0].find("mdia")[0].find("minf")[0].find("stbl")[0].find("stsd")[0]
        stsd.items[-1] = isogen.mp4a(a, f, c, br, 48000, rng.choice([0, 0, 3]))
        data = bytes(isogen.render(nodes).data)
        files.append(data)
        exp.append({"aprofile": "ok:" + aots[a], "sfi": "ok:" + sfis[f], "chan": "ok:" + chans[c], "bitrate": br, "media": "ok:AAC", "label": "aac_%d_%d_%d" % (a, f, c)})
    for w, h in ((0, 0), (1, 65535), (1920, 1080)):
        sps = bytes([0x67, rng.randrange(256), rng.randrange(256), rng.randrange(256)]) + bytes(rng.randrange(256) for _ in range(rng.choice([0, 5, 40])))
        pps = bytes([0x68]) + bytes(rng.randrange(256) for _ in range(3))
        tr = [{"id": 1, "kind": "avc", "ts": 1000, "sizes": [3], "chunks": [1], "deltas": [40], "cts": None, "sync": None, "co64": False, "w": w, "h": h}]
        r, tracks, nodes = isogen.build_movie(tr)
        stsd = nodes[1].find("trak")[0].find("mdia")[0].find("minf")[0].find("stbl")[0].find("stsd")[0]
        stsd.items[-1] = isogen.avc1(w, h, sps, pps)
        files.append(bytes(isogen.render(nodes).data))
        exp.append({"w": w, "h": h, "sps": 'ok:"%s"' % sps.hex(), "pps": 'ok:"%s"' % pps.hex(), "media": "ok:H264",
                    "avcc": {"profile": sps[1], "compat": sps[2], "level": sps[3], "nsps": 1, "npps": 1}, "label": "avc_%d_%d" % (w, h)})
    stats["accessor_files"] = len(files)
    outs = readcheck.run_both([{"data": d} for d in files], "debug", want_model=True)
    for d, e, (impl, model) in zip(files, exp, outs):
        t = readcheck.correspondence(impl, model)
        if t and t != "skipped":
            ties.append(("reader_model_%d" % len(ties), dict(t, kind="correspondence", case=e["label"], file=d.hex())))
        if impl.get("open") != "ok" or not impl.get("tracks"):
            fail("accessor", {"what": "reference-encoded file does not open (%s)" % impl.get("open"), "file": d.hex()}, e["label"])
            continue
        tr = impl["tracks"][0]
        for k, v in e.items():
            if k != "label" and tr.get(k) != v:
                fail("accessor", {"what": "reader reports %s = %r, the bitstream encodes %r" % (k, tr.get(k), v), "file": d.hex()}, e["label"])
                break
    rep.coverage.update({"evaluations": 2 * len(datas) + len(files), "distinct_nontrivial": stats["decode_ok"],
                         "rule": "the C04 box/shape/value space, each box in compact and 64-bit-header form; canonical reference renderings must be reproduced byte for byte; "
                                 "esds with descriptor lengths padded to 1..4 bytes; reader accessors on reference-encoded files for AAC object type x frequency index x channel "
                                 "layout (thinned in quick) and AVC parameter sets / dimensions; non-trivial = boxes the real decoder accepts",
                         "input_distribution": stats})
    rep.coverage["samples"] = [{"case": meta[i][0], "form": meta[i][1], "box": meta[i][2].hex()[:160]} for i in (1, len(meta) // 2)]
    rep.assumptions = ["gen/isogen.py is an independent rendering of the ISO layouts (canonical forms only for the listed box kinds)",
                       "the model side of the comparison is proved equal to Iso/*.v layouts by Props/C04.v"]
    for name, payload in fails[:5]:
        rep.violation(name, payload)
    if fails:
        return
    if not proof_ok:
        rep.violation("proof_obligation", {"kind": "obligation", "what": "Props/C05 no longer checks", "details": details, "searched": "no non-conformity found on the real codec"}, no_input=True)
        return
    for name, payload in ties[:5]:
        payload["searched"] = "no non-conformity found on the real codec"
        rep.violation(name, payload, no_input=True)
