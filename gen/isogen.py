"""Reference renderer of ISO-BMFF files for the read-side properties (generator, not oracle).

A file is a tree of Box nodes. Rendering returns the bytes and a *field map*: for every integer field
(offset, width, role, box path) — used for boundary substitution (C06/C07/C08) — and the offset of every
box (used by the layout transformations of C12 and the truncation points of C11).

Expected results never come from this file: they are computed by the extracted Coq specification
(Spec/SampleTable.v, Spec/Fragment.v, ...) from the abstract description (tables), or by metamorphic
comparison of the implementation with itself."""
import struct

U32 = 1 << 32


def cc(s):
    return s.encode("latin1") if isinstance(s, str) else s


class F:
    """an integer field"""

    def __init__(self, width, value, role="value", signed=False):
        self.width, self.value, self.role, self.signed = width, value, role, signed

    def render(self):
        v = self.value
        if self.signed and v < 0:
            v += 1 << (8 * self.width)
        return (v % (1 << (8 * self.width))).to_bytes(self.width, "big")


class Raw:
    def __init__(self, data, role="bytes"):
        self.data, self.role = bytes(data), role


class Box:
    def __init__(self, typ, items=(), large=False, pad=b"", size_override=None):
        self.typ = cc(typ)
        self.items = list(items)
        self.large = large
        self.pad = pad
        self.size_override = size_override

    def add(self, *items):
        self.items.extend(items)
        return self

    def find(self, typ):
        return [i for i in self.items if isinstance(i, Box) and i.typ == cc(typ)]


def full(typ, version, flags, items=(), **kw):
    return Box(typ, [F(1, version, "version"), F(3, flags, "flags")] + list(items), **kw)


class Rendered:
    def __init__(self):
        self.data = bytearray()
        self.fields = []   # (offset, width, role, path)
        self.boxes = []    # (offset, size, hdr, path)


def _render(node, out, path, base):
    if isinstance(node, F):
        out.fields.append((base + len(out.data), node.width, node.role, path))
        out.data += node.render()
    elif isinstance(node, Raw):
        out.data += node.data
    elif isinstance(node, (bytes, bytearray)):
        out.data += node
    elif isinstance(node, Box):
        start = len(out.data)
        p = path + "/" + node.typ.decode("latin1")
        hdr = 16 if node.large else 8
        out.data += b"\0" * hdr
        idx = len(out.boxes)
        out.boxes.append(None)
        for it in node.items:
            _render(it, out, p, base)
        out.data += node.pad
        size = len(out.data) - start
        dsize = node.size_override if node.size_override is not None else size
        if node.large:
            out.data[start:start + 16] = struct.pack(">I4sQ", 1, node.typ, dsize % (1 << 64))
            out.fields.append((base + start + 8, 8, "largesize", p))
        else:
            out.data[start:start + 8] = struct.pack(">I4s", dsize % U32, node.typ)
            out.fields.append((base + start, 4, "size", p))
        out.boxes[idx] = (base + start, size, hdr, p)
    else:
        raise TypeError(node)


def render(nodes, base=0):
    out = Rendered()
    for n in nodes:
        _render(n, out, "", base)
    return out


# ---------------------------------------------------------------- leaf builders
MATRIX = [0x10000, 0, 0, 0, 0x10000, 0, 0, 0, 0x40000000]


def ftyp(major="isom", minor=512, brands=("isom", "iso2", "avc1", "mp41")):
    return Box("ftyp", [Raw(cc(major)), F(4, minor), Raw(b"".join(cc(b) for b in brands))])


def mvhd(timescale=1000, duration=0, version=0, next_track_id=2):
    w = 8 if version == 1 else 4
    return full("mvhd", version, 0, [F(w, 0, "time"), F(w, 0, "time"), F(4, timescale, "timescale"), F(w, duration, "duration"),
                                     F(4, 0x10000), F(2, 0x100), F(2, 0), F(8, 0)] + [F(4, m) for m in MATRIX] + [Raw(b"\0" * 24), F(4, next_track_id)])


def tkhd(track_id, duration=0, width=0, height=0, version=0):
    w = 8 if version == 1 else 4
    return full("tkhd", version, 1, [F(w, 0, "time"), F(w, 0, "time"), F(4, track_id, "track_id"), F(4, 0), F(w, duration, "duration"),
                                     F(8, 0), F(2, 0), F(2, 0), F(2, 0x100), F(2, 0)] + [F(4, m) for m in MATRIX] +
                [F(4, width << 16, "width"), F(4, height << 16, "height")])


def lang_code(s):
    s = cc(s)
    return ((s[0] - 0x60) << 10) | ((s[1] - 0x60) << 5) | (s[2] - 0x60)


def mdhd(timescale=1000, duration=0, language="und", version=0):
    w = 8 if version == 1 else 4
    return full("mdhd", version, 0, [F(w, 0, "time"), F(w, 0, "time"), F(4, timescale, "timescale"), F(w, duration, "duration"),
                                     F(2, lang_code(language), "language"), F(2, 0)])


def hdlr(handler="vide", name=b"VideoHandler\0"):
    return full("hdlr", 0, 0, [F(4, 0), Raw(cc(handler)), Raw(b"\0" * 12), Raw(name)])


def vmhd():
    return full("vmhd", 0, 1, [F(2, 0), F(2, 0), F(2, 0), F(2, 0)])


def smhd():
    return full("smhd", 0, 0, [F(2, 0), F(2, 0)])


def dinf():
    return Box("dinf", [full("dref", 0, 0, [F(4, 1, "count"), full("url ", 0, 1)])])


def avcc(sps=b"\x67\x64\x00\x28\xac", pps=b"\x68\xee\x3c\x80"):
    return Box("avcC", [F(1, 1), F(1, sps[1]), F(1, sps[2]), F(1, sps[3]), F(1, 0xff), F(1, 0xe1), F(2, len(sps), "length"), Raw(sps),
                        F(1, 1), F(2, len(pps), "length"), Raw(pps)])


def visual_entry(typ, width, height, children):
    return Box(typ, [Raw(b"\0" * 6), F(2, 1), F(4, 0), Raw(b"\0" * 12), F(2, width, "width"), F(2, height, "height"), F(4, 0x480000), F(4, 0x480000),
                     F(4, 0), F(2, 1), Raw(b"\0" * 32), F(2, 0x18), F(2, 0xffff)] + list(children))


def avc1(width=320, height=240, sps=b"\x67\x64\x00\x28\xac", pps=b"\x68\xee\x3c\x80", extra=()):
    return visual_entry("avc1", width, height, list(extra) + [avcc(sps, pps)])


def hvcc():
    return Box("hvcC", [F(1, 1), F(1, 0), F(4, 0), F(6, 0), F(1, 0), F(2, 0xf000), F(1, 0xfc), F(1, 0xfc), F(1, 0xf8), F(1, 0xf8), F(2, 0), F(1, 0), F(1, 0)])


def hev1(width=640, height=360):
    return visual_entry("hev1", width, height, [hvcc()])


def vpcc():
    return full("vpcC", 1, 0, [F(1, 0), F(1, 0x1f), F(1, 0x80), F(1, 0), F(1, 0), F(1, 0), F(2, 0)])


def vp09(width=640, height=360):
    return visual_entry("vp09", width, height, [vpcc()])


def desc(tag, payload, pad=0):
    n = len(payload)
    ln = bytes([0x80 | ((n >> (7 * i)) & 0x7f) for i in range(pad, 0, -1)]) + bytes([n & 0x7f]) if (pad or n < 128) else None
    if ln is None:
        parts = []
        m = n
        while True:
            parts.insert(0, m & 0x7f)
            m >>= 7
            if not m:
                break
        ln = bytes([p | 0x80 for p in parts[:-1]] + [parts[-1]])
    return bytes([tag]) + ln + payload


def esds(aot=2, freq_index=3, chan=2, bitrate=128000, pad=0, explicit_freq=48000, es_flags=0):
    # AudioSpecificConfig (14496-3 1.6.2.1): audioObjectType 5 bits (31 = escape: + 6 bits), samplingFrequencyIndex 4 bits
    # (15 = escape: + 24 bits samplingFrequency), channelConfiguration 4 bits; padded with zero bits to a byte boundary
    bits = ""
    bits += format(aot, "05b") if aot < 31 else "11111" + format(aot - 32, "06b")
    bits += format(freq_index, "04b")
    if freq_index == 15:
        bits += format(explicit_freq, "024b")
    bits += format(chan, "04b")
    bits += "0" * (-len(bits) % 8)
    if aot < 31 and freq_index != 15:
        bits = bits[:16]
    asc = int(bits, 2).to_bytes(len(bits) // 8, "big")
    dsi = desc(5, asc, pad)
    dcd = desc(4, bytes([0x40, 0x15]) + (0).to_bytes(3, "big") + bitrate.to_bytes(4, "big") + bitrate.to_bytes(4, "big") + dsi, pad)
    slc = desc(6, b"\x02", pad)
    # ES_Descriptor (14496-1 7.2.6.5): ES_ID, flags byte; streamDependenceFlag 0x80 -> dependsOn_ES_ID(16); URL_Flag 0x40 -> URLlength(8) + URL;
    # OCRstreamFlag 0x20 -> OCR_ES_Id(16); low 5 bits streamPriority
    opt = (b"\x00\x07" if es_flags & 0x80 else b"") + (b"\x03abc" if es_flags & 0x40 else b"") + (b"\x00\x09" if es_flags & 0x20 else b"")
    es = desc(3, (1).to_bytes(2, "big") + bytes([es_flags]) + opt + dcd + slc, pad)
    return full("esds", 0, 0, [Raw(es)])


def mp4a(aot=2, freq_index=3, chan=2, bitrate=128000, samplerate=48000, pad=0, extra=(), es_flags=0):
    return Box("mp4a", [Raw(b"\0" * 6), F(2, 1), F(8, 0), F(2, chan), F(2, 16), F(4, 0), F(4, (samplerate & 0xffff) << 16)] + list(extra) + [esds(aot, freq_index, chan, bitrate, pad, es_flags=es_flags)])


def tx3g():
    # 6 reserved, data_reference_index, display_flags, h/v justification, bg rgba, box record (4 x i16), style record (12 bytes)
    return Box("tx3g", [Raw(b"\0" * 6), F(2, 1), F(4, 0), F(1, 1), F(1, 0xff, signed=True), Raw(b"\0\0\0\xff"), F(2, 0), F(2, 0), F(2, 0), F(2, 0),
                        Raw(b"\0\0\0\0\0\1\0\x12\xff\xff\xff\xff")])


def stsd(entry):
    return full("stsd", 0, 0, [F(4, 1, "count"), entry])


def stts(entries):
    return full("stts", 0, 0, [F(4, len(entries), "count")] + [x for c, d in entries for x in (F(4, c, "run_count"), F(4, d, "delta"))])


def ctts(entries, version=0):
    return full("ctts", version, 0, [F(4, len(entries), "count")] + [x for c, o in entries for x in (F(4, c, "run_count"), F(4, o, "offset", signed=True))])


def stsc(entries):
    return full("stsc", 0, 0, [F(4, len(entries), "count")] + [x for a, b, c in entries for x in (F(4, a, "first_chunk"), F(4, b, "spc"), F(4, c, "sdi"))])


def stsz(size, count, sizes):
    return full("stsz", 0, 0, [F(4, size, "sample_size"), F(4, count, "count")] + [F(4, s, "size_entry") for s in sizes])


def stco(offsets):
    return full("stco", 0, 0, [F(4, len(offsets), "count")] + [F(4, o, "chunk_offset") for o in offsets])


def co64(offsets):
    return full("co64", 0, 0, [F(4, len(offsets), "count")] + [F(8, o, "chunk_offset") for o in offsets])


def stss(ids):
    return full("stss", 0, 0, [F(4, len(ids), "count")] + [F(4, i, "sync_id") for i in ids])


HANDLER = {"avc": "vide", "hevc": "vide", "vp9": "vide", "aac": "soun", "ttxt": "sbtl"}


def sample_entry(kind, tr):
    if tr.get("entry") is not None:
        return tr["entry"]     # a sample entry box given directly
    if kind == "avc":
        return avc1(tr.get("w", 320), tr.get("h", 240))
    if kind == "hevc":
        return hev1(tr.get("w", 640), tr.get("h", 360))
    if kind == "vp9":
        return vp09(tr.get("w", 640), tr.get("h", 360))
    if kind == "aac":
        return mp4a()
    return tx3g()


def stbl_of(tr):
    tb = tr["tables"]
    items = [stsd(sample_entry(tr.get("kind", "avc"), tr)), stts(tb["stts"])]
    if tb.get("ctts") is not None:
        items.append(ctts(tb["ctts"]))
    if tb.get("stss") is not None:
        items.append(stss(tb["stss"]))
    items.append(stsc(tb["stsc"]))
    items.append(stsz(*tb["stsz"]))
    if tb.get("co64") is not None:
        items.append(co64(tb["co64"]))
    if tb.get("stco") is not None:
        items.append(stco(tb["stco"]))
    return Box("stbl", items)


def trak_of(tr):
    kind = tr.get("kind", "avc")
    dur = tr.get("duration", 0)
    minf_items = [vmhd() if HANDLER[kind] == "vide" else smhd() if kind == "aac" else None, tr.get("dinf") or dinf(), stbl_of(tr)]
    return Box("trak", [tkhd(tr["id"], dur, tr.get("w", 0), tr.get("h", 0), 1 if dur >= U32 else 0)] + list(tr.get("trak_before_mdia", ())) +
               [Box("mdia", [mdhd(tr.get("ts", 1000), dur, tr.get("lang", "und"), 1 if dur >= U32 else 0), hdlr(HANDLER[kind]),
                             Box("minf", [i for i in minf_items if i is not None])])] + list(tr.get("trak_extra", ())))


def sample_bytes(track_id, k, n):
    return bytes(((track_id * 37 + k * 11 + j * 3) & 255) for j in range(n))


# ---------------------------------------------------------------- movies from abstract per-track descriptions
def rle(values, split=None):
    """run-length encode; split(i) -> True forces a new run before element i even if the value repeats"""
    runs = []
    for i, v in enumerate(values):
        if runs and runs[-1][1] == v and not (split and split(i)):
            runs[-1][0] += 1
        else:
            runs.append([1, v])
    return [(c, v) for c, v in runs]


def stsc_runs(chunk_counts, split=None):
    runs = []
    for i, n in enumerate(chunk_counts):
        if runs and runs[-1][1] == n and not (split and split(i)):
            continue
        runs.append((i + 1, n, 1))
    return runs


def make_tables(tr, offsets):
    sizes = tr["sizes"]
    n = len(sizes)
    fixed = tr.get("fixed", False) and n > 0 and len(set(sizes)) == 1 and sizes[0] > 0
    tb = {"stsc": stsc_runs(tr["chunks"], tr.get("stsc_split")),
          "stsz": (sizes[0], n, []) if fixed else (0, n, list(sizes)),
          "stts": rle(tr["deltas"], tr.get("stts_split")),
          "ctts": None if tr.get("cts") is None else rle(tr["cts"], tr.get("ctts_split")),
          "stss": None if tr.get("sync") is None else list(tr["sync"])}
    tb["co64" if tr.get("co64") else "stco"] = list(offsets)
    if tr.get("zero_runs"):
        # runs with sample_count 0 (legal: they describe no sample) in front of, between and behind the real runs of stts and ctts;
        # with enough of them a table has as many entries as the track has samples without being "one entry per sample"
        def sprinkle(runs, val, k):
            out = []
            for i, r in enumerate(runs):
                if (i + k) % 2 == 0:
                    out.append((0, val))
                out.append(r)
            return out + [(0, val)]
        tb["stts"] = sprinkle(tb["stts"], 777, tr["zero_runs"])
        if tb["ctts"] is not None:
            tb["ctts"] = sprinkle(tb["ctts"], 999, tr["zero_runs"] + 1)
            while len(tb["ctts"]) < n:
                tb["ctts"].insert(len(tb["ctts"]) // 2, (0, -999))
    return tb


def build_movie(tracks, layout="moov_first", movie_ts=1000, extra_top=(), udta=None, mvex=None, base=0, large_mdat=False, moov_extra=(), lead=(), mdat_to_eof=False):
    """returns (Rendered, tracks with 'tables' and 'offsets' filled in, mdat payload offset)"""
    # chunk order: round robin over tracks
    order = []
    maxc = max([len(t["chunks"]) for t in tracks] + [0])
    for c in range(maxc):
        for ti, t in enumerate(tracks):
            if c < len(t["chunks"]):
                order.append((ti, c))

    def assemble(payload_start):
        pos = payload_start
        offs = [[0] * len(t["chunks"]) for t in tracks]
        payload = bytearray()
        first = [0] * len(tracks)
        starts = [[0] * len(t["chunks"]) for t in tracks]
        for ti, t in enumerate(tracks):
            s = 0
            for c, n in enumerate(t["chunks"]):
                starts[ti][c] = s
                s += n
        for ti, c in order:
            t = tracks[ti]
            offs[ti][c] = pos
            for k in range(starts[ti][c], starts[ti][c] + t["chunks"][c]):
                # data_cap: the tables declare the full size, the file carries only the first data_cap bytes of the sample
                # (declared sizes of 2^31.. cannot be materialised; offset lookups are still defined by the tables)
                b = sample_bytes(t["id"], k + 1, min(t["sizes"][k], t.get("data_cap", 1 << 62)))
                payload += b
                pos += len(b)
        return offs, bytes(payload)

    def moov_for(offs):
        items = [mvhd(movie_ts, max([t.get("duration", sum(t["deltas"])) for t in tracks] + [0]), next_track_id=len(tracks) + 1)]
        for t, o in zip(tracks, offs):
            # tables_override: run-length tables given directly (tracks whose sample count cannot be enumerated)
            t["tables"] = t["tables_override"] if t.get("tables_override") is not None else make_tables(t, o)
            t.setdefault("duration", sum(t["deltas"]))
            items.append(trak_of(t))
        if mvex is not None:
            items.append(mvex)
        if udta is not None:
            items.append(udta)
        items += list(moov_extra)
        return Box("moov", items)

    f = ftyp()
    offs0, payload = assemble(0)
    moov0 = moov_for(offs0)
    # lead: boxes in FRONT of ftyp (e.g. the 12-byte signature box of JPEG 2000 family files, or a free box): the reader accepts any order
    head = render(list(lead) + [f] + list(extra_top))
    if layout == "moov_first":
        moov_len = len(render([moov0]).data)
        pstart = base + len(head.data) + moov_len + (16 if large_mdat else 8)
        offs, payload = assemble(pstart)
        # mdat_to_eof: the media data box is the last box of the file and declares size 0 ("extends to the end of the file", 14496-12 4.2)
        nodes = list(lead) + [f] + list(extra_top) + [moov_for(offs), Box("mdat", [Raw(payload)], large=large_mdat, size_override=0 if (mdat_to_eof and not large_mdat) else None)]
    else:
        pstart = base + len(head.data) + (16 if large_mdat else 8)
        offs, payload = assemble(pstart)
        nodes = list(lead) + [f] + list(extra_top) + [Box("mdat", [Raw(payload)], large=large_mdat), moov_for(offs)]
    for t, o in zip(tracks, offs):
        t["offsets"] = o
    return render(nodes, base), tracks, nodes


def hx(n):
    return "%x" % n


def lookup_line(tb, ids, mode, data_hex="-"):
    toks = ["lookup", mode, data_hex, "ids=" + (",".join(hx(i) for i in ids) or "-"),
            "stsc=" + (",".join("%x:%x:%x" % e for e in tb["stsc"]) or "-"),
            "stsz=%x:%x:%s" % (tb["stsz"][0], tb["stsz"][1], ",".join(hx(s) for s in tb["stsz"][2]) or "-")]
    if tb.get("stco") is not None:
        toks.append("stco=" + (",".join(hx(o) for o in tb["stco"]) or "-"))
    if tb.get("co64") is not None:
        toks.append("co64=" + (",".join(hx(o) for o in tb["co64"]) or "-"))
    toks.append("stts=" + (",".join("%x:%x" % e for e in tb["stts"]) or "-"))
    if tb.get("ctts") is not None:
        toks.append("ctts=" + (",".join("%x:%d" % e for e in tb["ctts"]) or "-"))
    if tb.get("stss") is not None:
        toks.append("stss=" + (",".join(hx(i) for i in tb["stss"]) or "-"))
    return " ".join(toks)


# ---------------------------------------------------------------- fragments, edit lists, events, metadata
def mfhd(seq=1):
    return full("mfhd", 0, 0, [F(4, seq, "sequence")])


def mehd(duration, version=0):
    return full("mehd", version, 0, [F(8 if version == 1 else 4, duration, "duration")])


def trex(track_id=1, desc=1, dur=0, size=0, flags=0):
    return full("trex", 0, 0, [F(4, track_id, "track_id"), F(4, desc), F(4, dur, "default_duration"), F(4, size, "default_size"), F(4, flags)])


def mvex(trexes, mehd_box=None):
    return Box("mvex", ([mehd_box] if mehd_box else []) + list(trexes))


TFHD_BASE, TFHD_DESC, TFHD_DUR, TFHD_SIZE, TFHD_FLAGS, TFHD_EMPTY, TFHD_MOOF = 0x1, 0x2, 0x8, 0x10, 0x20, 0x10000, 0x20000


def tfhd(track_id, base_data_offset=None, desc=None, default_duration=None, default_size=None, default_flags=None, extra_flags=0):
    flags = extra_flags
    items = [F(4, track_id, "track_id")]
    if base_data_offset is not None:
        flags |= TFHD_BASE
        items.append(F(8, base_data_offset, "base_data_offset"))
    if desc is not None:
        flags |= TFHD_DESC
        items.append(F(4, desc))
    if default_duration is not None:
        flags |= TFHD_DUR
        items.append(F(4, default_duration, "default_duration"))
    if default_size is not None:
        flags |= TFHD_SIZE
        items.append(F(4, default_size, "default_size"))
    if default_flags is not None:
        flags |= TFHD_FLAGS
        items.append(F(4, default_flags))
    return full("tfhd", 0, flags, items)


def tfdt(time, version=0):
    return full("tfdt", version, 0, [F(8 if version == 1 else 4, time, "decode_time")])


TRUN_OFFSET, TRUN_FIRST, TRUN_DUR, TRUN_SIZE, TRUN_FLAGS, TRUN_CTS = 0x1, 0x4, 0x100, 0x200, 0x400, 0x800


def trun(count, data_offset=None, first_flags=None, durations=None, sizes=None, sflags=None, cts=None, version=0):
    flags = 0
    items = [F(4, count, "count")]
    if data_offset is not None:
        flags |= TRUN_OFFSET
        items.append(F(4, data_offset, "data_offset", signed=True))
    if first_flags is not None:
        flags |= TRUN_FIRST
        items.append(F(4, first_flags))
    for (lst, bit) in ((durations, TRUN_DUR), (sizes, TRUN_SIZE), (sflags, TRUN_FLAGS), (cts, TRUN_CTS)):
        if lst is not None:
            flags |= bit
    n = max([len(x) for x in (durations, sizes, sflags, cts) if x is not None] + [0])
    for i in range(n):
        if durations is not None:
            items.append(F(4, durations[i], "sample_duration"))
        if sizes is not None:
            items.append(F(4, sizes[i], "size_entry"))
        if sflags is not None:
            items.append(F(4, sflags[i]))
        if cts is not None:
            items.append(F(4, cts[i], "offset", signed=True))
    return full("trun", version, flags, items)


def elst(entries, version=0):
    w = 8 if version == 1 else 4
    return full("elst", version, 0, [F(4, len(entries), "count")] + [x for (d, t, r, f) in entries for x in (F(w, d, "duration"), F(w, t), F(2, r), F(2, f))])


def edts(entries=None, version=0):
    return Box("edts", [elst(entries, version)] if entries is not None else [])


def emsg(version=0, timescale=1000, ptime=5, duration=6, ident=7, scheme=b"urn:x", value=b"v", data=b"\x01\x02"):
    if version == 0:
        items = [Raw(scheme + b"\0"), Raw(value + b"\0"), F(4, timescale, "timescale"), F(4, ptime), F(4, duration, "duration"), F(4, ident)]
    else:
        items = [F(4, timescale, "timescale"), F(8, ptime), F(4, duration, "duration"), F(4, ident), Raw(scheme + b"\0"), Raw(value + b"\0")]
    return full("emsg", version, 0, items + [Raw(data)])


def data_box(dtype, payload, locale=0):
    # type indicator, then the locale indicator (country + language; 0 = default), then the value
    return Box("data", [F(4, dtype, "data_type"), F(4, locale), Raw(payload)])


def ilst_item(code, dtype, payload, extra=(), locale=0):
    return Box(code, list(extra) + [data_box(dtype, payload, locale)])


TITLE, YEAR, POSTER, SUMMARY = b"\xa9nam", b"\xa9day", b"covr", b"desc"


def ilst(items):
    return Box("ilst", list(items))


def meta(children, fullbox=True, handler="mdir", hdlr_first=True, with_hdlr=True):
    h = hdlr(handler, b"\0") if with_hdlr else None
    kids = ([h] if h and hdlr_first else []) + list(children) + ([h] if h and not hdlr_first else [])
    return Box("meta", ([F(1, 0, "version"), F(3, 0, "flags")] if fullbox else []) + kids)


def udta(children):
    return Box("udta", list(children))


# ---------------------------------------------------------------- fragmented movies
def build_fragmented(tracks, fragments, movie_ts=1000, trex_dur=0, extra_between=(), large_moof=False, trex_durs=None, moof_transform=None, last_mdat_to_eof=False,
                     mehd_dur=None, mvex_order=None):
    """tracks: [{"id", "kind", "ts"}]; fragments: [[traf, ...], ...] with
         traf = {"track_id", "base": "moof" | "explicit" | "explicit_end", "tfhd_dur": None|int, "tfdt": None|int, "tfdt_v": 0|1,
                 "durations": None|[..], "sizes": [..], "cts": None|[..], "with_offset": bool, "trun": bool}
       returns (init bytes, media bytes, runs) where runs[(track_id)] = list of fragrun dicts with positions RELATIVE TO THE MEDIA SEGMENT START
       (add len(init) for the single-stream case)."""
    trs = []
    for t in tracks:
        tt = dict(t)
        tt.update({"sizes": [], "chunks": [], "deltas": [], "cts": None, "sync": None, "co64": False, "duration": 0})
        trs.append(tt)
    if trex_durs:
        mv = mvex([trex(t["id"], 1, trex_durs[t["id"]]) for t in tracks])
    else:
        mv = mvex([trex(tracks[-1]["id"], 1, trex_dur)])
    if mehd_dur is not None:
        mv.items = [mehd(mehd_dur)] + list(mv.items)
    if mvex_order is not None:
        # mvex_order(n) -> a permutation of range(n): the children of mvex (mehd, one trex per track) in another order
        mv.items = [mv.items[i] for i in mvex_order(len(mv.items))]
    r, _, nodes = build_movie(trs, "moov_first", movie_ts=movie_ts, mvex=mv)
    # init segment = ftyp + moov (drop the empty mdat)
    init = bytes(render(nodes[:-1]).data)
    media = bytearray()
    runs = {}
    seq = 1
    for fi, frag in enumerate(fragments):
        for x in extra_between:
            media += bytes(render([x]).data)
        moof_off = len(media)

        def make(offsets, bases, frag=frag, seq=seq, fi=fi):
            trafs = []
            for ti, tf in enumerate(frag):
                kids = [tfhd(tf["track_id"], bases[ti] if tf.get("base", "moof") != "moof" else None, None, tf.get("tfhd_dur"),
                             extra_flags=TFHD_MOOF if tf.get("moof_flag") else 0)]
                if tf.get("tfdt") is not None:
                    kids.append(tfdt(tf["tfdt"], tf.get("tfdt_v", 0)))
                # further track runs of the same track fragment, in front of the main one (the reader keeps one run per traf: the last)
                for ex in tf.get("extra_truns", ()):
                    kids.append(trun(len(ex["sizes"]), ex.get("data_offset"), None, ex.get("durations"), ex["sizes"], None, ex.get("cts")))
                if tf.get("trun", True):
                    kids.append(trun(len(tf["sizes"]), offsets[ti] if tf.get("with_offset", True) else None, None, tf.get("durations"), tf["sizes"], None, tf.get("cts")))
                trafs.append(Box("traf", kids))
            mb = Box("moof", [mfhd(seq)] + trafs, large=large_moof)
            # moof_transform(box, fragment index): a layout variant of the movie fragment box; it must be a function of its arguments
            # (it is applied once to measure the box and once to render it)
            return moof_transform(mb, fi) if moof_transform else mb
        moof0 = make([0] * len(frag), [0] * len(frag))
        moof_len = len(render([moof0]).data)
        payload_start = moof_off + moof_len + 8
        # data of the runs, in traf order
        cum = 0
        starts = []
        for tf in frag:
            starts.append(cum)
            cum += sum(tf["sizes"]) if tf.get("trun", True) else 0
        payload_end = payload_start + cum
        offsets, bases = [], []
        for tf, st in zip(frag, starts):
            mode = tf.get("base", "moof")
            if mode == "moof":
                bases.append(None)
                offsets.append(payload_start + st - moof_off)
            elif mode == "explicit":
                bases.append(("ABS", payload_start))
                offsets.append(st)
            else:
                bases.append(("ABS", payload_end))
                offsets.append(st - cum)          # negative
        yield_bases = bases
        media_piece = (make, offsets, bases, frag, moof_off, payload_start, starts)
        # the explicit base is an absolute stream position: the caller tells us the stream offset of the media segment later,
        # so we render with a placeholder and patch: keep the structure
        runs.setdefault("_pieces", []).append(media_piece)
        # placeholder rendering to advance the cursor
        media += b"\0" * moof_len
        pl = bytearray()
        for tf in frag:
            if tf.get("trun", True):
                k0 = tf.get("k0", 1)
                for j, n in enumerate(tf["sizes"]):
                    # data_cap: the run declares the full sizes, the file carries only the first data_cap bytes of each sample
                    pl += sample_bytes(tf["track_id"] + 7 * fi, k0 + j, min(n, tf.get("data_cap", n)))
        media += struct.pack(">I4s", 0 if (last_mdat_to_eof and fi == len(fragments) - 1) else 8 + len(pl), b"mdat") + pl
        seq += 1
    pieces = runs.pop("_pieces", [])

    def finalize(stream_off, want_fields=False):
        """render the media segment for a stream in which it starts at absolute position stream_off; returns (bytes, fragruns per track)
        [, field map of the moof boxes with offsets relative to the media segment]"""
        out = bytearray(media)
        fr = {}
        fields = []
        for (make, offsets, bases, frag, moof_off, payload_start, starts) in pieces:
            abs_bases = [None if b is None else b[1] + stream_off for b in bases]
            moof = make(offsets, abs_bases)
            rm = render([moof])
            mb = bytes(rm.data)
            fields += [(moof_off + o, w, role, path) for (o, w, role, path) in rm.fields]
            out[moof_off:moof_off + len(mb)] = mb
            for tf, off, ab in zip(frag, offsets, abs_bases):
                has_trun = tf.get("trun", True)
                flags = 0
                if has_trun:
                    flags = (TRUN_OFFSET if tf.get("with_offset", True) else 0) | (TRUN_DUR if tf.get("durations") is not None else 0) | TRUN_SIZE | (TRUN_CTS if tf.get("cts") is not None else 0)
                fr.setdefault(tf["track_id"], []).append({
                    "moof_offset": moof_off + stream_off, "base_data_offset": ab, "default_duration": tf.get("tfhd_dur"), "tfdt": tf.get("tfdt"),
                    "has_trun": has_trun, "flags": flags, "sample_count": len(tf["sizes"]) if has_trun else 0,
                    "data_offset": off if (has_trun and tf.get("with_offset", True)) else None,
                    "durations": (tf.get("durations") or []) if has_trun else [], "sizes": tf["sizes"] if has_trun else [], "cts": (tf.get("cts") or []) if has_trun else []})
        if want_fields:
            return bytes(out), fr, fields
        return bytes(out), fr
    return init, finalize


def fraglookup_line(runs, dflt, ids, mode, data_hex="-"):
    def o(x):
        return "-" if x is None else "%x" % x
    toks = ["fraglookup", mode, "%x" % dflt, data_hex, "ids=" + (",".join("%x" % i for i in ids) or "-")]
    for r in runs:
        toks.append("run=%x:%s:%s:%s:%d:%x:%x:%s:%s:%s:%s" % (
            r["moof_offset"], o(r["base_data_offset"]), o(r["default_duration"]), o(r["tfdt"]), 1 if r["has_trun"] else 0, r["flags"], r["sample_count"],
            "-" if r["data_offset"] is None else str(r["data_offset"]),
            ",".join("%x" % x for x in r["durations"]) or "-", ",".join("%x" % x for x in r["sizes"]) or "-",
            ",".join("%x" % (x & 0xffffffff) for x in r["cts"]) or "-"))
    return " ".join(toks)
