"""Shared machinery of the read-side properties (C06, C07, C08, C10, C11, C12, C15, C18, C09):
run byte strings through the real Mp4Reader (harness `run`, cmd read) and through the extracted reader model
(driver `read`), normalise, compare; corpora of valid files and structure-aware mutations."""
import itertools
import json
import os
import random

import common
import isogen

U32 = 1 << 32
SAMPLES = "/repo/tests/samples"


def h2i(x):
    return int(x, 16)


# ---------------------------------------------------------------- running
def impl_case(data, **opts):
    d = {"cmd": "read", "file": data.hex(), "bytes": True, "extra": 2, "max_samples": 60}
    d.update(opts)
    return json.dumps(d)


def model_case(data, mode, declared=None, frag=None, extra=2, maxs=60, fail=None):
    toks = ["read", mode, "-" if declared is None else "%x" % declared, data.hex() or "-", "extra=%d" % extra, "maxs=%d" % maxs]
    if frag is not None:
        toks.append("frag=" + (frag.hex() or "-"))
    if fail is not None:
        toks.append("fail=%d" % fail)
    return " ".join(toks)


def run_both(cases, profile, want_model=True, revisit=True, **opts):
    """cases: list of dicts {data, [len], [frag], [frag_len], [fail] ...}; returns list of (impl, model) parsed.
    revisit: the harness repeats every sample_offset / read_sample call on the same reader in reverse and in scrambled order and reports answers
    that differ from the first ones (collected by common.harness_run in common.ORDER_DEP; common.run_check turns them into violations of the
    property being checked)."""
    mode = "d" if profile == "debug" else "r"
    il, ml = [], []
    for c in cases:
        o = dict(opts)
        if revisit and "calls" not in c:
            o["revisit"] = True
        for k in ("len", "frag_len", "fail", "fail_kind", "chunk", "intr", "calls", "json", "base"):
            if k in c:
                o[k] = c[k]
        if "frag" in c:
            o["frag"] = c["frag"].hex()
        il.append(impl_case(c["data"], **o))
        ml.append(model_case(c["data"], mode, c.get("len"), c.get("frag"), fail=c.get("fail")))
    iraw = common.harness_run("run", profile, il, timeout=600)
    mraw = common.model_run(ml, timeout=1200) if want_model else [None] * len(cases)
    out = []
    for a, b in zip(iraw, mraw):
        try:
            ia = json.loads(a)
        except Exception:
            ia = {"dead": a}
        if b is None:
            mb = None
        else:
            try:
                mb = json.loads(b)
            except Exception:
                mb = {"dead": b}
        out.append((ia, mb))
    return out


# ---------------------------------------------------------------- normalisation of the model's output
def nres(v, kind="str"):
    if v["r"] == "ok":
        x = v["v"]
        if kind == "int":
            return "ok:%d" % h2i(x)
        if kind == "hexq":
            return 'ok:"%s"' % x
        return "ok:%s" % x
    return {"notfound": "data", "oof": "hang"}.get(v["r"], v["r"])


def nsample(v):
    if v["r"] == "some":
        return {"r": "some", "start": h2i(v["start"]), "dur": h2i(v["dur"]), "cts": v["cts"], "sync": v["sync"], "len": v["len"], "bytes": v["bytes"]}
    return {"r": {"oof": "hang"}.get(v["r"], v["r"])}


def norm_dump(mo):
    out = {}
    a = mo["acc"]
    out["acc"] = {"size": h2i(a["size"]), "major": h2i(a["major"]), "minor": h2i(a["minor"]), "brands": [h2i(x) for x in a["brands"]],
                  "duration_ms": h2i(a["duration_ms"]), "timescale": h2i(a["timescale"]), "fragmented": a["fragmented"]}
    ts = []
    for t in mo["tracks"]:
        ts.append({"id": t["id"], "track_id": h2i(t["track_id"]), "type": nres(t["type"]), "media": nres(t["media"]), "box": nres(t["box"], "int"),
                   "w": h2i(t["w"]), "h": h2i(t["h"]), "sfi": nres(t["sfi"]), "chan": nres(t["chan"]), "lang": t["lang"], "ts": h2i(t["ts"]),
                   "dur_us": h2i(t["dur_us"]), "bitrate": None if t["bitrate"] is None else h2i(t["bitrate"]), "count": h2i(t["count"]),
                   "vprofile": nres(t["vprofile"]), "sps": nres(t["sps"], "hexq"), "pps": nres(t["pps"], "hexq"), "aprofile": nres(t["aprofile"])})
    out["tracks"] = ts
    calls = []
    for kind, tid, sid, v in mo["calls"]:
        calls.append([kind, tid, sid, nsample(v) if kind == "rs" else nres(v, "int")])
    out["calls"] = calls
    m = mo["meta"]
    out["meta"] = {"title": m["title"], "year": None if m["year"] is None else h2i(m["year"]), "poster": m["poster"], "summary": m["summary"]}
    return out


TRACK_KEYS = ["id", "track_id", "type", "media", "box", "w", "h", "sfi", "chan", "lang", "ts", "dur_us", "count", "vprofile", "sps", "pps", "aprofile"]


def compare_dump(impl, mo):
    """impl: harness dump (dict with acc/tracks/calls/meta); mo: normalised model dump"""
    ia = {k: impl["acc"].get(k) for k in mo["acc"]}
    if ia != mo["acc"]:
        k = next(k for k in mo["acc"] if ia[k] != mo["acc"][k])
        return {"what": "reader accessor %s differs" % k, "model": mo["acc"][k], "impl": ia[k]}
    it = sorted(impl["tracks"], key=lambda t: t["id"])
    if [t["id"] for t in it] != [t["id"] for t in mo["tracks"]]:
        return {"what": "track id sets differ", "model": [t["id"] for t in mo["tracks"]], "impl": [t["id"] for t in it]}
    for a, b in zip(it, mo["tracks"]):
        for k in TRACK_KEYS:
            if a.get(k) != b[k]:
                return {"what": "track %d accessor %s differs" % (b["id"], k), "model": b[k], "impl": a.get(k)}
        if b["bitrate"] is not None and a.get("bitrate") != b["bitrate"]:
            return {"what": "track %d bitrate differs" % b["id"], "model": b["bitrate"], "impl": a.get("bitrate")}
    if len(impl["calls"]) != len(mo["calls"]):
        return {"what": "call lists differ in length (harness/driver defaults out of sync?)", "model": len(mo["calls"]), "impl": len(impl["calls"])}
    for a, b in zip(impl["calls"], mo["calls"]):
        if a != b:
            return {"what": "call %s(track %d, sample %d) differs" % (b[0], b[1], b[2]), "model": b[3], "impl": a[3]}
    if impl.get("meta") != mo["meta"]:
        return {"what": "metadata differs", "model": mo["meta"], "impl": impl.get("meta")}
    return None


def correspondence(impl, model):
    """level B. Returns None, a mismatch description, or the string 'skipped' when the model could not be evaluated."""
    if model is None:
        return "skipped"
    if "dead" in model:
        return "skipped" if ("Out_of_memory" in str(model["dead"]) or "Stack_overflow" in str(model["dead"]) or "missing" in str(model["dead"])) else {"what": "model driver failed", "raw": str(model["dead"])[:300]}
    if "dead" in impl:
        if model.get("open") == "oof":
            return None  # the model predicts non-termination / exhaustion and the worker died or timed out
        return {"what": "implementation worker died (abort/timeout), model says %s" % model.get("open"), "raw": str(impl["dead"])[:100]}
    mo_open = {"oof": "hang"}.get(model["open"], model["open"])
    if impl.get("open") != mo_open:
        return {"what": "read_header outcome differs", "model": model["open"], "site": model.get("site"), "impl": impl.get("open")}
    if mo_open != "ok":
        return None
    r = compare_dump(impl, norm_dump(model))
    if r:
        return r
    if "open_frag" in model or "open_frag" in impl:
        mf = {"oof": "hang"}.get(model.get("open_frag"), model.get("open_frag"))
        if impl.get("open_frag") != mf:
            return {"what": "read_fragment_header outcome differs", "model": model.get("open_frag"), "site": model.get("frag_site"), "impl": impl.get("open_frag")}
        if mf == "ok":
            r = compare_dump(impl["frag"], norm_dump(model["frag"]))
            if r:
                r["what"] = "fragment reader: " + r["what"]
                return r
    return None


def panics_in(impl):
    """every place the harness recorded a panic (C06 oracle)"""
    if "dead" in impl:
        return ["worker died: %s" % str(impl["dead"])[:60]]
    out = []
    if impl.get("open") == "panic":
        out.append("read_header")
    if impl.get("open_frag") == "panic":
        out.append("read_fragment_header")

    def scan(d, where):
        for k, v in d.get("acc", {}).items():
            if v == "panic":
                out.append(where + "accessor " + k)
        for t in d.get("tracks", []):
            for k, v in t.items():
                if v == "panic":
                    out.append(where + "track %s accessor %s" % (t.get("id"), k))
        for kind, tid, sid, v in d.get("calls", []):
            if v == "panic" or (isinstance(v, dict) and v.get("r") == "panic"):
                out.append(where + "%s(%d,%d)" % (kind, tid, sid))
        if d.get("meta") == "panic":
            out.append(where + "metadata")
        for ent in d.get("json", []):
            if any(isinstance(x, str) and "panic" in x.split("+") for x in ent[1:]):
                out.append(where + "to_json/summary of " + ent[0])
    scan(impl, "")
    if "frag" in impl:
        scan(impl["frag"], "fragment: ")
    return out


# ---------------------------------------------------------------- corpora
def canned():
    out = []
    for fn in sorted(os.listdir(SAMPLES)):
        if fn.endswith((".mp4", ".m4v", ".m4s")):
            out.append((fn, open(os.path.join(SAMPLES, fn), "rb").read()))
    return out


def small_tracks(rng, ntr=None, maxn=12):
    trs = []
    for t in range(ntr or rng.choice([1, 1, 2])):
        n = rng.randint(0, maxn)
        chunks, left = [], n
        while left > 0:
            c = min(left, rng.choice([1, 2, 3, 5]))
            chunks.append(c)
            left -= c
        fixed = rng.random() < 0.3
        trs.append({"id": t + 1, "kind": rng.choice(["avc", "hevc", "vp9", "aac", "ttxt"]), "ts": rng.choice([1, 1000, 48000]),
                    "sizes": [4] * n if fixed else [rng.choice([0, 1, 2, 9, 40]) for _ in range(n)], "chunks": chunks,
                    "deltas": [rng.choice([1, 40, 1001]) for _ in range(n)],
                    "cts": None if rng.random() < 0.5 else [rng.choice([0, 5, -5]) for _ in range(n)],
                    "sync": None if rng.random() < 0.5 else sorted(rng.sample(range(1, n + 1), rng.randint(0, n))) if n else [],
                    "co64": rng.random() < 0.4, "fixed": fixed})
        # run-length tables that are NOT maximally compressed: consecutive entries repeating the same value (legal; some muxers write one entry per chunk / sample)
        q = rng.random()
        if rng.random() < 0.35:
            trs[-1]["stsc_split"] = (lambda j, q=q: (j * 7919) % 10 < 3 + q * 7)
        if rng.random() < 0.25:
            trs[-1]["stts_split"] = (lambda j, q=q: (j * 31) % 10 < 2 + q * 6)
        if rng.random() < 0.25:
            trs[-1]["ctts_split"] = (lambda j, q=q: (j * 17) % 10 < 2 + q * 6)
    return trs


def valid_files(rng, n):
    """(name, Rendered) for generated non-fragmented movies with their field maps"""
    out = []
    for i in range(n):
        trs = small_tracks(rng)
        layout = "moov_first" if i % 2 == 0 else "mdat_first"
        udta = None
        if i % 3 == 1:
            udta = isogen.udta([isogen.meta([isogen.ilst([isogen.ilst_item(isogen.TITLE, 1, b"Title"), isogen.ilst_item(isogen.YEAR, 1, b"1999"),
                                                           isogen.ilst_item(isogen.POSTER, 13, b"\xff\xd8\xff"), isogen.ilst_item(b"\xa9too", 1, b"enc")]),
                                             isogen.Box("free", [isogen.Raw(b"pad")])], fullbox=(i % 2 == 0))])
        elif i % 3 == 2:
            # a meta box with another handler: its children are kept as raw boxes; a second hdlr child is skipped
            udta = isogen.udta([isogen.meta([isogen.Box("xml ", [isogen.Raw(b"<a/>")]), isogen.hdlr("mdta", b"again\0"), isogen.Box("keys", [isogen.Raw(b"\0" * 8)])],
                                            fullbox=True, handler="mdta")])
        extra = []
        if i % 4 == 0:
            extra = [isogen.emsg(0, 1000, 5, 6, 7, b"urn:scheme", b"val", b"\x01\x02\x03")]
        elif i % 4 == 2:
            extra = [isogen.emsg(1, 90000, 1 << 33, 6, 7, b"u", b"", b""), isogen.Box("free", [isogen.Raw(b"1234")])]
        moov_extra = []
        if i % 5 == 3:
            # metadata at the track level (trak.meta) and at the movie level (moov.meta), both forms; an edit list before mdia
            trs[0]["trak_extra"] = [isogen.meta([isogen.ilst([isogen.ilst_item(isogen.TITLE, 1, b"Track title")])], fullbox=(i % 2 == 1))]
            trs[-1]["trak_before_mdia"] = [isogen.edts([(10, 0, 1, 0)], version=i % 2)]
            moov_extra = [isogen.meta([isogen.ilst([isogen.ilst_item(isogen.YEAR, 21, b"\x00\x00\x07\xd8")])], fullbox=True)]
        elif i % 5 == 4:
            trs[0]["trak_extra"] = [isogen.meta([isogen.Box("xml ", [isogen.Raw(b"<t/>")])], fullbox=True, handler="mdta")]
        lead = [isogen.Box("jP  ", [isogen.Raw(b"\r\n\x87\n")])] if i % 7 == 5 else [isogen.Box("free", [isogen.Raw(b"\0" * 20)])] if i % 7 == 2 else []
        r, tracks, nodes = isogen.build_movie(trs, layout, udta=udta, extra_top=extra, moov_extra=moov_extra, lead=lead)
        out.append(("gen%d" % i, r, tracks))
    return out


def valid_fragmented(rng, n):
    """generated fragmented movies: (name, init segment, media segment rendered for the single stream, media segment rendered for offset 0,
    field map of the moof boxes relative to the media segment).  1-2 tracks, 1-3 movie fragments, tracks repeated inside a movie fragment,
    track fragments without trun / without tfdt, all three base modes."""
    out = []
    bases = ["moof", "explicit", "explicit_end"]
    for i in range(n):
        ntr = rng.choice([1, 2])
        tracks = [{"id": j + 1, "kind": rng.choice(["avc", "aac", "hevc"]), "ts": rng.choice([1000, 48000])} for j in range(ntr)]
        clock = {t["id"]: rng.choice([0, 5, 1 << 33]) for t in tracks}
        cnt = {t["id"]: 1 for t in tracks}
        frags = []
        for f in range(rng.randint(1, 3)):
            chosen = rng.sample(tracks, rng.randint(1, ntr))
            while rng.random() < 0.4 and len(chosen) < 4:
                chosen.insert(rng.randint(0, len(chosen)), rng.choice(chosen))
            fr = []
            for t in chosen:
                k = rng.choice([0, 1, 2, 3])
                per = rng.random() < 0.5
                tf = {"track_id": t["id"], "base": rng.choice(bases), "tfhd_dur": rng.choice([None, 20]), "tfdt": clock[t["id"]] if rng.random() < 0.9 else None,
                      "tfdt_v": 1 if clock[t["id"]] >= (1 << 32) else rng.choice([0, 1]), "durations": [rng.choice([0, 1, 33]) for _ in range(k)] if per else None,
                      "sizes": [rng.choice([0, 1, 2, 9]) for _ in range(k)], "cts": [rng.choice([0, 7, -7]) for _ in range(k)] if rng.random() < 0.5 else None,
                      "with_offset": rng.random() < 0.9, "trun": rng.random() < 0.9, "k0": cnt[t["id"]], "moof_flag": rng.random() < 0.3}
                clock[t["id"]] += sum(tf["durations"]) if per else k * (tf["tfhd_dur"] or 10)
                cnt[t["id"]] += k
                if rng.random() < 0.3:
                    # several track runs in one track fragment, with different per-sample field sets
                    tf["extra_truns"] = [{"sizes": [rng.choice([0, 1, 3]) for _ in range(rng.choice([1, 2, 4]))], "data_offset": rng.choice([None, 8, -4]),
                                          "durations": rng.choice([None, "same"]), "cts": rng.choice([None, "same"])} for _ in range(rng.choice([1, 2]))]
                    for ex in tf["extra_truns"]:
                        for fld in ("durations", "cts"):
                            if ex[fld] == "same":
                                ex[fld] = [7] * len(ex["sizes"])
                fr.append(tf)
            frags.append(fr)
        init, fin = isogen.build_fragmented(tracks, frags, trex_dur=rng.choice([0, 10]), large_moof=(i % 5 == 4))
        m1, _, fields = fin(len(init), want_fields=True)
        m0, _ = fin(0)
        out.append(("fgen%d" % i, init, m1, m0, fields))
    return out


def trun_bombs(init):
    """media segments whose trun selects every combination of per-sample fields with a huge sample_count and no entries (C08), opened against `init`"""
    out = []
    for bits in range(64):
        flags = (0x1 if bits & 1 else 0) | (0x4 if bits & 2 else 0) | (0x100 if bits & 4 else 0) | (0x200 if bits & 8 else 0) | (0x400 if bits & 16 else 0) | (0x800 if bits & 32 else 0)
        for count in (1 << 16, 1 << 28, (1 << 32) - 1):
            items = [isogen.F(4, count)] + ([isogen.F(4, 0)] if bits & 1 else []) + ([isogen.F(4, 0)] if bits & 2 else [])
            moof = isogen.Box("moof", [isogen.mfhd(1), isogen.Box("traf", [isogen.tfhd(1), isogen.tfdt(0), isogen.full("trun", 0, flags, items)])])
            seg = bytes(isogen.render([moof, isogen.Box("mdat", [isogen.Raw(b"abcd")])]).data)
            out.append(("trun_bomb_%03x_%x" % (flags, count), {"data": init, "frag": seg}))
            out.append(("trun_bomb1_%03x_%x" % (flags, count), {"data": init + seg}))
    # several track runs in one track fragment: an honest run with per-sample fields next to a run WITHOUT any table that announces a huge sample count
    # (whatever a reader does with several runs, the count of one run must not size the tables of another)
    for first_flags in (0x200, 0x100, 0xf00, 0x201):
        for count in (1 << 16, 1 << 26, (1 << 32) - 1):
            nper = bin(first_flags & 0xf00).count("1")
            honest = isogen.full("trun", 0, first_flags, [isogen.F(4, 2)] + ([isogen.F(4, 0)] if first_flags & 1 else []) + [isogen.F(4, 3)] * (2 * nper))
            bomb = isogen.full("trun", 0, 0, [isogen.F(4, count)])
            for order, kids in (("hb", [honest, bomb]), ("bh", [bomb, honest]), ("hbh", [honest, bomb, honest])):
                moof = isogen.Box("moof", [isogen.mfhd(1), isogen.Box("traf", [isogen.tfhd(1), isogen.tfdt(0)] + kids)])
                seg = bytes(isogen.render([moof, isogen.Box("mdat", [isogen.Raw(b"abcdefgh")])]).data)
                out.append(("trun_multi_%s_%03x_%x" % (order, first_flags, count), {"data": init, "frag": seg}))
                out.append(("trun_multi1_%s_%03x_%x" % (order, first_flags, count), {"data": init + seg}))
    return out


CONTAINERS = {b"moov", b"trak", b"mdia", b"minf", b"stbl", b"mvex", b"moof", b"traf", b"udta", b"edts", b"dinf"}


def box_positions(data, start=0, end=None, path=""):
    """(offset, type, path) of every box reachable through the plain containers of a well-formed file"""
    out = []
    end = len(data) if end is None else end
    pos = start
    while pos + 8 <= end:
        size = int.from_bytes(data[pos:pos + 4], "big")
        typ = bytes(data[pos + 4:pos + 8])
        hdr = 8
        if size == 1:
            size = int.from_bytes(data[pos + 8:pos + 16], "big")
            hdr = 16
        elif size == 0:
            size = end - pos
        if size < hdr or pos + size > end:
            break
        p = path + "/" + typ.decode("latin1")
        out.append((pos, typ, p))
        if typ in CONTAINERS:
            out += box_positions(data, pos + hdr, pos + size, p)
        pos += size
    return out


def retype_mutations(data):
    """each box, one at a time, given a type nobody knows (the box is then skipped: the file lacks it).  Optional boxes may be absent in a valid
    file; a required one makes the file invalid — either way every call must return normally"""
    out = []
    for pos, typ, path in box_positions(data):
        b = bytearray(data)
        b[pos + 4:pos + 8] = b"zzzz"
        out.append(("retype:%s@%d" % (path, pos), bytes(b)))
    return out


COUNTED_TABLES = {"stts": 12, "ctts": 12, "stsc": 12, "stss": 12, "stco": 12, "co64": 12, "elst": 12, "stsz": 16}   # box type -> offset of the entry count


def short_table_bombs(r, repeat=(1,)):
    """a counted table box that DECLARES a size too short for its own fixed fields (8, 12, 15, 16 bytes, or its count field plus one byte) while
    its count field is large; the rest of the former box becomes a free box, so every parent stays well formed.  A count guard computed from
    the declared size must still reject (or bound) the count: no allocation or read sized by the raw field.  `r` is a Rendered valid movie.
    repeat k > 1: the short box is repeated k times (k-1 copies in front, as 'declared size' bytes each followed by a free box header covering
    nothing) — work must stay linear in the file length."""
    out = []
    data = bytes(r.data)
    for off, size, hdr, path in r.boxes:
        typ = path.rsplit("/", 1)[-1]
        if typ not in COUNTED_TABLES or hdr != 8:
            continue
        cpos = COUNTED_TABLES[typ]
        for short in (8, 12, 15, 16, cpos + 5):
            if size - short < 8:
                continue
            for count in (1, (len(data) - off) // 12, 1 << 16, 1 << 24, (1 << 32) - 1):
                b = bytearray(data)
                b[off:off + 4] = short.to_bytes(4, "big")
                b[off + cpos:off + cpos + 4] = (count & 0xffffffff).to_bytes(4, "big")
                # the remainder of the old box: a free box (its header overwrites table bytes; when the count field lies beyond `short` it may be overwritten too)
                if short >= cpos + 4 or short + 8 <= cpos:
                    b[off + short:off + short + 4] = (size - short).to_bytes(4, "big")
                    b[off + short + 4:off + short + 8] = b"free"
                elif short + 8 > cpos:
                    continue
                out.append(("short_%s_%d_%x" % (typ, short, count), {"data": bytes(b)}))
    return out


def frag_default_bombs(init):
    """track runs WITHOUT per-sample fields whose sample_count is huge, under every combination of tfhd defaults (duration / size / flags /
    explicit base): a lookup deep into such a run must not walk the run sample by sample.  As one stream and as media segment."""
    out = []
    for dd, ds, df, base in itertools.product((None, 10), (None, 5), (None, 0), (None, 40)):
        for tflags in (0x0, 0x1, 0x5):
            for count in (1 << 16, 1 << 31, (1 << 32) - 1):
                items = [isogen.F(4, count)] + ([isogen.F(4, 8)] if tflags & 1 else []) + ([isogen.F(4, 0)] if tflags & 4 else [])
                moof = isogen.Box("moof", [isogen.mfhd(1), isogen.Box("traf", [isogen.tfhd(1, base, None, dd, ds, df), isogen.tfdt(0), isogen.full("trun", 0, tflags, items)])])
                seg = bytes(isogen.render([moof, isogen.Box("mdat", [isogen.Raw(b"abcdefgh" * 4)])]).data)
                lab = "fragdef_%s%s%s%s_%x_%x" % ("d" if dd else "-", "s" if ds else "-", "f" if df is not None else "-", "b" if base else "-", tflags, count)
                out.append((lab, {"data": init, "frag": seg}))
                out.append((lab + "_1", {"data": init + seg}))
    return out


BOUNDARY = [0, 1, 7, 8, 15, 16, (1 << 16) - 1, (1 << 31) - 1, 1 << 31, U32 - 1, 1 << 63, (1 << 64) - 1]


def substitute(data, off, width, value):
    b = bytearray(data)
    b[off:off + width] = (value % (1 << (8 * width))).to_bytes(width, "big")
    return bytes(b)


def field_mutations(r, rng, per_field=None, roles=None):
    """single-field boundary substitutions over the field map of a rendered file"""
    data = bytes(r.data)
    out = []
    for off, width, role, path in r.fields:
        if roles and role not in roles:
            continue
        vals = BOUNDARY if per_field is None else rng.sample(BOUNDARY, per_field)
        if role in ("size", "largesize"):
            # box sizes: every boundary value and every small size around the fixed parts of the boxes
            vals = BOUNDARY + [9, 10, 11, 12, 13, 14, 17, 20, 24, 27, 28, 29, 32, 36, 40, 44]
        for v in vals:
            vv = v % (1 << (8 * width))
            if data[off:off + width] == vv.to_bytes(width, "big"):
                continue
            out.append(("%s@%d=%x" % (path + ":" + role, off, vv), substitute(data, off, width, vv)))
    return out


def pair_mutations(r, rng, n):
    data = bytes(r.data)
    out = []
    fs = r.fields
    for _ in range(n):
        (o1, w1, r1, p1), (o2, w2, r2, p2) = rng.sample(fs, 2)
        v1, v2 = rng.choice(BOUNDARY), rng.choice(BOUNDARY)
        out.append(("%s:%s@%d=%x+%s:%s@%d=%x" % (p1, r1, o1, v1, p2, r2, o2, v2), substitute(substitute(data, o1, w1, v1), o2, w2, v2)))
    return out


def truncations(data, step=1):
    return [("cut@%d" % n, data[:n]) for n in range(0, len(data), step)]


def havoc(data, rng, n):
    out = []
    for i in range(n):
        b = bytearray(data)
        for _ in range(rng.choice([1, 1, 2, 4, 16])):
            k = rng.randrange(len(b))
            op = rng.random()
            if op < 0.5:
                b[k] = rng.choice([0, 1, 0x7f, 0x80, 0xff, rng.randrange(256)])
            elif op < 0.7 and len(b) > 8:
                del b[k:k + rng.choice([1, 4, 8])]
            elif op < 0.9:
                b[k:k] = bytes(rng.randrange(256) for _ in range(rng.choice([1, 4, 8])))
            else:
                j = rng.randrange(len(b))
                b[k:k + 4] = b[j:j + 4]
        out.append(("havoc%d" % i, bytes(b)))
    return out
