"""C04 — box encode/decode are mutually inverse and size-exact.

proof:           Props/C04.v: one round-trip theorem per box (all leaf boxes, sample entries, esds descriptors, 13 containers);
                 Props/C04Fixpoint.v: re-encoding is a fixpoint for every leaf decoder (35 theorems: every value a decoder returns is in the domain of its round trip;
                 refuted exactly for esds frequency index 15 / object type >= 31: D95, D80)
correspondence:  the extracted codec model vs the real codec on the enumerated shape space: decode outcome, value tree (parsed from {:?}),
                 final position, box_size/box_type, write_box outcome, return value and bytes
oracle:          on the real codec: box_size() bytes written and returned, header size/type, exact consumption with a trailing sibling, decode(encode(v)) = v
"""
import common
import boxcheck
import boxgen
import isogen

LEVEL = "proof"
CONE = ["Props/C04.v", "Props/C04Fixpoint.v"] + ["Proofs/%s" % f for f in sorted(__import__("os").listdir(common.COQ + "/theories/Proofs")) if (f.startswith("Rt") or f.startswith("DecWf")) and f.endswith(".v")]


def check(rep, prop="C04"):
    proof_ok, details = common.proof_layer(rep, ["C04", "C04Fixpoint"] if prop == "C04" else prop, CONE if prop == "C04" else CONE5, extra_targets=["theories/Extract/Extract.vo"])
    with common.Lock():
        hb_ok, hb_log = common.harness_build(["run"])
        ob_ok, ob_log = common.ocaml_build()
    if not ob_ok or not hb_ok:
        rep.violation("build", {"kind": "correspondence", "what": "harness or extracted model does not build", "log": (hb_log + ob_log)[-3000:]}, no_input=True)
        return
    cases = boxgen.all_cases(rep.seed * 7919 + 4, rep.tier)
    datas, meta = [], []
    for label, box in cases:
        plain = bytes(isogen.render([box]).data)
        datas.append(plain + boxcheck.SIB)
        meta.append((label, len(plain), 8, plain))
    fails, ties = [], []
    stats = {"cases": len(datas), "decode_ok": 0, "decode_err": 0, "types": {}, "model_skipped": 0}
    known = [f for f in common.known_findings() if f["property"] == prop and f["status"] == "known"]
    seen_known = set()
    distinct = set()
    for profile in ("debug", "release"):
        res = boxcheck.run_boxes(datas, profile)
        for (label, blen, hdr, plain), (impl, model) in zip(meta, res):
            f = boxcheck.oracle_c04(impl, blen, hdr)
            if f:
                k = next((x for x in known if (x.get("match_re") and __import__("re").search(x["match_re"], label)) or (x.get("match") and x["match"] in label)), None)
                if k:
                    if k["id"] not in seen_known:
                        seen_known.add(k["id"])
                        rep.known(k["id"], f["what"] + " on " + label)
                else:
                    fails.append(("codec_%s_%d" % (profile, len(fails)), dict(f, kind="input", case=label, profile=profile, box=plain.hex())))
            t = boxcheck.correspondence(impl, model)
            if t == "skipped":
                stats["model_skipped"] += 1
            elif t:
                ties.append(("model_vs_impl_%s_%d" % (profile, len(ties)), dict(t, kind="correspondence", case=label, profile=profile, box=plain.hex())))
            if profile == "debug":
                ok = impl.get("dec") == "ok"
                stats["decode_ok" if ok else "decode_err"] += 1
                typ = plain[4:8].decode("latin1")
                stats["types"][typ] = stats["types"].get(typ, 0) + 1
                if ok:
                    distinct.add(plain)
    rep.coverage.update({"evaluations": 2 * len(datas), "distinct_nontrivial": len(distinct),
                         "rule": "every box type x shape space (version 0/1, all 32 tfhd and 64 trun flag combinations, optional children present/absent, list lengths 0..3, "
                                 "descriptor length padding, each sample-entry kind, every subset of the four metadata items, meta with/without full-box header) x value sets "
                                 "{fingerprint: every byte of every field distinct and non-zero, all-ones, zero, random}; each decoded with a trailing sibling box; debug and release; "
                                 "non-trivial = distinct boxes the real decoder accepts",
                         "input_distribution": stats})
    rep.coverage["samples"] = [{"case": meta[i][0], "box": meta[i][3].hex()[:200]} for i in (5, len(meta) // 2, len(meta) - 1)]
    rep.assumptions = ["gen/isogen.py + gen/boxgen.py only GENERATE inputs; every expectation comes from the real codec itself (fixpoint/size laws) or from the extracted model",
                       "gen/rustdebug.py parses derived Debug output"]
    for name, payload in fails[:5]:
        rep.violation(name, payload)
    if fails:
        return
    if not proof_ok:
        rep.violation("proof_obligation", {"kind": "obligation", "what": "Props/%s no longer checks" % prop, "details": details,
                                           "searched": "%d boxes x 2 profiles: round-trip and size laws hold on the real codec" % len(datas)}, no_input=True)
        return
    for name, payload in ties[:5]:
        payload["searched"] = "%d boxes x 2 profiles: round-trip and size laws hold on the real codec" % len(datas)
        rep.violation(name, payload, no_input=True)
