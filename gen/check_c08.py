"""C08 — memory use is bounded by the input length, not by fields in the input.

proof:           Props/C08.v (every allocation request of the decoders is bounded by the enclosing box size, hence by the file length)
correspondence:  allocation events of the extracted reader model (largest request, sum) vs the counting global allocator of the harness:
                 the implementation's largest single request and peak must stay below a fixed multiple of the model's sum (upper bound, not
                 equality: Vec growth and HashMap internals are allocator detail)
oracle:          counting allocator around read_header and around every sample/accessor call: largest request <= 16 n + 65536,
                 peak live <= 64 n + 262144 (open), per call <= 4 n + 65536
"""
import random

import common
import readcheck

LEVEL = "proof"
CONE = ["Props/C08.v", "Base/Cost.v", "Proofs/CostProps.v", "Proofs/CostOpen.v", "Proofs/CostSample.v", "Proofs/CostLeaf.v", "Proofs/CostLeaf2.v", "Proofs/CostLeaf3.v"]


def corpus(rep):
    rng = random.Random(rep.seed * 7919 + 8)
    quick = rep.tier == "quick"
    cases = []
    seeds = readcheck.canned()
    for n, d in seeds:
        cases.append((n, {"data": d}))
    init = next(d for n, d in seeds if n == "minimal_init.mp4")
    frag = next(d for n, d in seeds if n == "minimal_fragment.m4s")
    cases.append(("init+frag", {"data": init, "frag": frag}))
    big = [(1 << 16) - 1, (1 << 24) - 1, (1 << 31) - 1, 1 << 31, (1 << 32) - 1, (1 << 63) - 1, 1 << 63, (1 << 64) - 1]
    for name, r, _ in readcheck.valid_files(rng, 8 if quick else 40):
        data = bytes(r.data)
        cases.append((name, {"data": data}))
        for off, width, role, path in r.fields:
            if role in ("value", "time", "version", "flags", "language"):
                continue
            for v in (big if not quick else rng.sample(big, 4)):
                cases.append(("%s:%s:%s@%d=%x" % (name, path, role, off, v % (1 << (8 * width))), {"data": readcheck.substitute(data, off, width, v)}))
        for lab, m in readcheck.pair_mutations(r, rng, 40 if quick else 400):
            cases.append((name + ":" + lab, {"data": m}))
    for n, d in seeds:
        if len(d) < 6000:
            for lab, m in readcheck.havoc(d, rng, 100 if quick else 1000):
                cases.append((n + ":" + lab, {"data": m}))
    for lab, m in readcheck.havoc(frag, rng, 100 if quick else 1000):
        cases.append(("frag:" + lab, {"data": init, "frag": m}))
    cases += readcheck.trun_bombs(init)
    for name, r, _ in [f for i, f in enumerate(readcheck.valid_files(random.Random(rep.seed + 88), 4 if quick else 9)) if not quick or i in (0, 3)]:   # file 3 carries an edit list
        cases += [("%s:%s" % (name, lab), c) for lab, c in readcheck.short_table_bombs(r)]
    return cases


def check(rep):
    proof_ok, details = common.proof_layer(rep, "C08", CONE, extra_targets=["theories/Extract/Extract.vo"])
    with common.Lock():
        hb_ok, hb_log = common.harness_build(["run"])
        ob_ok, ob_log = common.ocaml_build()
    if not ob_ok or not hb_ok:
        rep.violation("build", {"kind": "correspondence", "what": "harness or extracted model does not build", "log": (hb_log + ob_log)[-3000:]}, no_input=True)
        return
    cases = corpus(rep)
    fails, ties = [], []
    stats = {"cases": len(cases), "open_ok": 0, "model_skipped": 0, "max_request_over_n": 0.0, "max_peak_over_n": 0.0}
    distinct = set()
    for profile in ("release", "debug"):
        res = readcheck.run_both([c for _, c in cases], profile, revisit=False)
        for (label, c), (impl, model) in zip(cases, res):
            n = len(c["data"]) + len(c.get("frag", b""))
            if "dead" in impl:
                fails.append(("dead_%s_%d" % (profile, len(fails)), {"kind": "input", "what": "worker died (OOM kill / abort / timeout): %s" % str(impl["dead"])[:80], "case": label,
                                                                     "profile": profile, "file": c["data"].hex(), "frag": c.get("frag", b"").hex()}))
                continue
            a = impl["alloc"]
            if a["max"] > 16 * n + 65536 or a["peak"] > 64 * n + 262144:
                fails.append(("alloc_%s_%d" % (profile, len(fails)), {"kind": "input", "what": "allocation not bounded by the input length: largest request %d, peak %d for n=%d" % (a["max"], a["peak"], n),
                                                                      "case": label, "profile": profile, "file": c["data"].hex(), "frag": c.get("frag", b"").hex()}))
            if impl.get("call_max_alloc", 0) > 4 * n + 65536:
                fails.append(("call_alloc_%s_%d" % (profile, len(fails)), {"kind": "input", "what": "a sample/accessor call allocates %d bytes for n=%d" % (impl["call_max_alloc"], n),
                                                                           "case": label, "profile": profile, "file": c["data"].hex()}))
            t = readcheck.correspondence(impl, model)
            if t == "skipped":
                stats["model_skipped"] += 1
            elif t:
                ties.append(("model_vs_impl_%s_%d" % (profile, len(ties)), dict(t, kind="correspondence", case=label, profile=profile, file=c["data"].hex())))
            elif model is not None and "alloc_sum" in model:
                ms = int(model["alloc_sum"], 16)
                if impl["alloc_open"]["max"] > 4 * ms + 16384:
                    ties.append(("alloc_events_%s_%d" % (profile, len(ties)), {"kind": "correspondence", "what": "the implementation requests %d bytes at once during read_header; the model's allocation events sum to %d" % (impl["alloc_open"]["max"], ms),
                                                                               "case": label, "profile": profile, "file": c["data"].hex()}))
            if profile == "release":
                stats["open_ok"] += 1 if impl.get("open") == "ok" else 0
                if n > 256:
                    stats["max_request_over_n"] = max(stats["max_request_over_n"], round(a["max"] / n, 2))
                    stats["max_peak_over_n"] = max(stats["max_peak_over_n"], round(a["peak"] / n, 2))
                distinct.add(hash(c["data"]) ^ hash(c.get("frag", b"")))
    rep.coverage.update({"evaluations": 2 * len(cases), "distinct_nontrivial": len(distinct),
                         "rule": "maximal values {2^16-1, 2^24-1, 2^31-1, 2^31, 2^32-1, 2^63-1, 2^63, 2^64-1} in every count / length / size / offset field of every table and "
                                 "variable-length box (single), pairwise boundary substitutions, havoc of canned files and of media segments opened against the init segment; "
                                 "counting global allocator; distinct = distinct byte strings",
                         "input_distribution": stats})
    rep.coverage["samples"] = [{"case": cases[i][0], "n": len(cases[i][1]["data"])} for i in (8, len(cases) // 2, len(cases) - 1)]
    rep.assumptions = ["the counting allocator sees every heap request of the process (Rust global allocator)", "harness/run is the compiled /repo library"]
    for name, payload in fails[:5]:
        rep.violation(name, payload)
    if fails:
        return
    if not proof_ok:
        rep.violation("proof_obligation", {"kind": "obligation", "what": "Props/C08 no longer checks", "details": details,
                                           "searched": "%d inputs x 2 profiles: every allocation within the linear bound" % len(cases)}, no_input=True)
        return
    for name, payload in ties[:5]:
        payload["searched"] = "%d inputs x 2 profiles: every allocation within the linear bound" % len(cases)
        rep.violation(name, payload, no_input=True)
