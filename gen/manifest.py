#!/usr/bin/env python3
"""Regenerates MANIFEST.json from the table below (run: python3 gen/manifest.py)."""
import json
import os

VERIF = os.path.dirname(os.path.dirname(os.path.abspath(__file__)))

TB = ("Trusted: Coq 8.16.1 kernel + vm_compute, no axioms (Print Assumptions of every property theorem is checked to be 'Closed under the global "
      "context' on every run); the hand-written model is tied to /repo by the correspondence run on every check (extracted with ExtrOcamlBasic only; "
      "ocaml/driver.ml glue); translator regexes for Gen/Tables.v; the Rust harness; rustc/std/byteorder. All Rust code is modelled, not verified directly.")

CHECKS = {
    "C01": ("proof",
            "Kernel-checked: for every accepted history (unbounded length, any interleaving, both build modes) the writer model's final tables are "
            "`consistent` and the independent ISO sample-table specification applied to them returns exactly the k-th written sample's size, duration, "
            "start time, rendering offset, sync flag and the bytes at its offset in the output (C01_mux_demux_fidelity); rejected calls leave no trace. "
            "Composed with C03 (lookup model = specification). Tied to the code on every run: the extracted writer model and the real Mp4Writer agree on "
            "per-call outcomes, bytes before moov and every table/header field (read from the real bytes by the independent extracted parser) over "
            "shape-exhaustive small + random histories in debug and release; oracle: real writer -> real reader vs the history.",
            "Coq proof of writer invariants + model/implementation correspondence + read-back oracle",
            "Since round 2 the composition is ONE theorem (Props/C01Open.v, C01_mux_then_open): open_fuel (the model of Mp4Reader::read_header) run on the muxer's COMPLETE output bytes "
            "(ftyp, mdat in either size form, payload, encoded moov) succeeds and the resulting reader's accessors and sample calls return the configuration and the history; hypotheses: "
            "representable configuration (C04's hypothesis; AAC object type < 31 = known finding D80), moov < 4 GiB, output < 2^63 bytes. " + TB),
    "C02": ("proof",
            "Kernel-checked (C02_valid_output etc.): for every accepted history the writer model's tables pass the independent validator's per-track rule "
            "(totals of stsz/stts/ctts/stsc x chunk offsets = samples written, stss increasing and in range), all chunk extents lie inside the mdat payload "
            "and are pairwise disjoint and cover it exactly, mdhd duration = sum, tkhd = floor(mdhd*movie_ts/track_ts) saturated, mvhd = max, versions widen "
            "when needed. On every run the extracted validator iso_check_file (Iso/IsoFile.v, shares no code with the library model) judges the REAL "
            "muxer's bytes: top-level tiling, container sizes, table consistency, extents, durations. Props/C02Bytes.v (C02_mux_bytes_iso_valid) is the composed byte-level theorem: "
            "iso_check_file accepts the muxer model's complete output bytes with the history's expectation.",
            "Coq proof over the writer model + independent extracted validator on real output",
            "Durations whose conversion exceeds 2^64-1 cannot be represented by the format; the validator accepts only the saturated value there. " + TB),
    "C03": ("proof",
            "Kernel-checked (lookup_sound, read_sample_sound): for EVERY consistent table set (unbounded sizes, any run-length grouping, stco/co64, "
            "fixed/variable sizes incl. zero, any stts/ctts runs, any stss) and both build modes, the lookup model returns exactly what the independent "
            "ISO sample-table specification defines, ids outside 1..=count never yield a sample. Tie: the extracted lookup model vs the real Mp4Reader "
            "on files rendered from exhaustively enumerated small table shapes and random large ones (incl. files at stream positions around 2^32/2^62); "
            "oracle: the extracted SPECIFICATION vs the real reader.",
            "Coq proof (model = ISO specification) + model/implementation correspondence",
            "Props/C03Open.v (C03_consistent_file_lookup) composes it with the box round trips into a theorem from BYTES: open_fuel on the ISO rendering of any well-formed moov with consistent "
            "tables (either box order, either header form) yields a reader whose lookups return the specification's samples. " + TB),
    "C13": ("proof",
            "Kernel-checked over unbounded N (no 4 GiB needed): mdat uses the 64-bit size form iff its size exceeds 2^32-1 and covers exactly the payload; "
            "each track has co64 iff some chunk offset exceeds 2^32-1 (else stco), offsets never altered; mdhd/tkhd/mvhd version 1 iff duration exceeds "
            "2^32-1; together with C01 (stated for any start position). Tie/oracle: histories landing just below/at/above each boundary via non-zero "
            "start positions and summed durations, real writer -> real reader + independent parser + form rules, debug and release.",
            "Coq proof over unbounded integers + boundary histories on the real muxer",
            "Media data above 4 GiB is written for real through a sparse stream and judged by the oracle only (the extracted model cannot hold 4 GiB byte lists); "
            "the model side of that transition is the theorem. Props/C13Open.v: the end-to-end read-back theorem for output starting at ANY stream position. " + TB),
    "C14": ("proof",
            "Kernel-checked (configuration_survives, durations_survive): accepted configurations reach the final track records unchanged in order with ids "
            "1..n, ftyp bytes and movie timescale from the configuration, durations exact / within one tick. Tie/oracle: every reader accessor on the real "
            "muxer's output vs the configuration for all AAC triples, boundary dimensions, parameter-set lengths, languages, brands, timescales. Reader side: Props/C01Open.v "
            "(conf_survives): every accessor of the reader opened on the muxer's complete bytes returns the configuration.",
            "Coq proof over the writer model + accessor oracle on real output",
            "The codec-parameter bytes inside stsd (avcC, esds, ...) are covered by the C04/C05 box theorems and the accessor oracle. Known finding D80 "
            "(AAC object types >= 32). " + TB),
    "C16": ("proof",
            "Kernel-checked theorems (Props/C16.v) over tables regenerated from the source on every run: box-type/code bijection for all codes via a reflected "
            "table check and a generic lemma, FourCC bytes/text laws, enum tables equal to the ISO tables, AvcProfile over all 2^16 pairs and the packed "
            "language over all 2^16 codes and 26^3 triples by kernel computation; tied to the compiled code by an exhaustive sweep of the real conversions "
            "over their complete domains (2^32 codes etc.), which for this finite-domain property is itself exhaustive.",
            "Coq proof over source-regenerated tables + exhaustive implementation sweep",
            "Trusted: Coq kernel + vm_compute; translator regexes; Iso/IsoTables.v typed from the standards; the sweep harness. Known finding D91 (FourCC text "
            "lossy for non-UTF-8 codes) is excluded by hypothesis in fourcc_exact and reported as KNOWN-FINDING."),
    "C17": ("proof",
            "Kernel-checked (muxer_total, muxer_calls_return, muxer_total_release): for ANY configuration values and any history (zero timescales, short "
            "parameter sets, any language bytes, maximal durations, any sample lengths, unknown ids, no tracks), in both build modes, no muxer call panics "
            "and every call returns Ok or an error of the documented class; via a reachable-state invariant that bounds every unchecked arithmetic site. "
            "Tie/oracle: catch_unwind around every real call on degenerate argument pools in debug and release; when all calls succeed the C01/C02 oracles "
            "are applied.",
            "Coq totality proof via state invariant + catch_unwind exploration",
            "Histories end with one write_end (the property's quantifier); >= 2^32-1 tracks excluded (not constructible). Props/C17Bytes.v (mux_bytes_total): building and encoding the moov "
            "never panics either, for any configuration. " + TB),
}


CHECKS.update({
    "C04": ("proof",
            "Kernel-checked: one round-trip theorem per box (Props/C04.v: every leaf box, the sample entries with their configuration records, "
            "the esds descriptors, and 13 containers): for every value representable in the wire format the encoder returns box_size, writes exactly "
            "header(size, own four-cc) ++ payload of that length without seeking, and decoding at ANY position followed by ANY sibling bytes, in either build mode, "
            "returns the value and leaves the stream exactly at the end of the box. Tie: the extracted codec model vs the real codec on the enumerated shape space "
            "(value trees parsed from {:?}, positions, sizes, return values, bytes). Oracle on the real codec: size/return/header laws, exact consumption with a "
            "trailing sibling, decode(encode(v)) = v. Second half (Props/C04Fixpoint.v, 35 leaf + 14 container theorems): every value ANY decoder returns from ANY bytes lies in "
            "the domain of its round trip, hence re-encoding is a fixpoint; refuted exactly for esds object type >= 31 (D80) and frequency index 15 (D95), with byte witnesses.",
            "Coq round-trip proofs per box + Coq decoder-range proofs (fixpoint) + model/implementation correspondence on the shape space",
            "Known findings D80 (AAC object type >= 32) and D95 (explicit sampling frequency dropped). url/dref/dinf: the reader accepts boxes violating the ISO self-contained-flag rule; "
            "the round trip is re-proved without that conjunct. " + TB),
    "C05": ("proof",
            "Kernel-checked: the third conjunct of every round-trip theorem states that the encoder's bytes ARE the ISO layout iso_xxx_payload (Iso/*.v, written "
            "from ISO/IEC 14496-12/-14/-15 without reference to the encoder), the fifth that the decoder inverts that layout (restated for representative boxes in "
            "Props/C05.v); hdr64_equiv (Props/C12.v) covers the 64-bit size form. Oracle: boxes rendered by the independent reference renderer must be reproduced "
            "byte for byte; 64-bit-header and padded-descriptor forms decode to the same value; codec parameters exposed by the reader equal the encoded ones for all "
            "AAC object type x frequency index x channel layout triples and AVC parameter sets.",
            "Coq proofs against an independent ISO layout + reference-rendered inputs on the real codec",
            "Two reference renderings exist: Iso/*.v (Coq, used in the theorems) and gen/isogen.py (Python, used to generate inputs); both written from the standards. " + TB),
    "C06": ("proof",
            "Kernel-checked (Props/C06.v): for every byte string with its true length (< 2^62) and both build modes, read_header and read_fragment_header (against ANY "
            "reader value) never panic; every reader returned by them satisfies reader_ok, and on such readers sample_count / sample_offset / read_sample for every "
            "track id and every u32 sample id and all Result-valued accessors never panic (no-panic Hoare triples for all 43 decoders, the loop combinator for all fuel, "
            "the lookups on arbitrary parsed tables). Tie: the model's outcome class incl. panic predictions vs the real reader on structure-aware mutations. Oracle: "
            "catch_unwind around every read-side call incl. to_json/summary, worker exit status, debug and release.",
            "Coq no-panic Hoare logic over the reader model + catch_unwind exploration",
            "to_json/summary/frame_rate/float bitrate are not modelled (oracle only); stack depth is bounded by the acyclic box nesting (runtime: worker exit status). " + TB),
    "C09": ("proof",
            "Kernel-checked (frag_lookup_sound, frag_read_sample_sound): for every consistent list of track fragments (unbounded), both build modes, the fragment branches "
            "of the lookup model return exactly what the independent movie-fragment specification (Spec/Fragment.v) defines: offset = explicit base or moof start + run data "
            "offset + earlier sizes, start = tfdt + earlier durations, duration per-sample / tfhd default / movie default, signed composition offset, count = sum of runs; ids "
            "outside never yield a sample. Tie/oracle: extracted specification and models vs the real reader on shape-exhaustive and random fragmented movies, as one stream and "
            "as init + media segment.",
            "Coq proof (lookup model = fragment specification) + correspondence",
            "Props/C09Open.v: the same from BYTES (fragmented_file_open / _lookup: open_fuel on the ISO rendering of moov + moof/mdat pairs, moof offsets are the byte positions). "
            "Known findings D72 (single trex) and D94 (only the last track run of a track fragment is kept). Runs without per-sample sizes / without tfdt are outside the property. " + TB),
    "C10": ("proof",
            "PARTIAL. Kernel-checked for the model: (a) every program of the read and write monads (open, open fragment, read_sample, every encoder) returns Err EIo whenever the "
            "injected fault is delivered, and a fault armed within the run's call count is delivered (free-monad theorems, no catch node exists); (b) short_reads_transparent / "
            "short_writes_transparent: with every transfer node replaced by a model of std's read_exact / write_all loop over a raw stream that follows an ARBITRARY schedule of short "
            "transfers and Interrupted failures, every program returns the same result and leaves the same stream. The loops are a MODEL of std (trusted base); that the library moves bytes "
            "through nothing else is the source-regenerated lemma io_discipline (Props/C10.v). Exercised on the real code: every fault index x {error, zero-length write} on files and "
            "histories, transfer splitting at 1/2/3/7 bytes with Interrupted.",
            "Coq free-monad fault theorem + Coq model of std's transfer loops + source-regenerated I/O call-site table + exhaustive fault-index enumeration on the real code",
            "Labelled partial: std's and byteorder's real loops are modelled, not verified. The muxer is stopped after the first I/O error (the property speaks of the call in progress). " + TB),
    "C11": ("proof",
            "Kernel-checked: prefix_stable (any run that does not hit the end of the prefix behaves identically on the complete data: Ok, data errors and panics alike), "
            "read_sample_prefix, open_prefix_moov (same ftyp/moov, moofs of the prefix reader are a prefix), truncated_unfragmented and truncated_fragmented (samples read through "
            "the prefix reader equal those of the complete file in bytes and timing). Props/C11Open.v composes them with C01 and C03 and removes the fuel coupling: whatever a reader opened on "
            "ANY prefix (any fuel) of the muxer's bytes returns is that sample of the history (C11_mux_prefix), and on any prefix of the ISO rendering of any consistent movie (either box order) it is the "
            "specification's sample with the complete file's bytes, lying inside the prefix (C11_file_prefix); Props/C11Frag.v: the same for fragmented files ftyp moov (moof mdat)* from bytes — the prefix reader holds exactly the "
            "moofs that start before the cut, and every sample it returns for a track with a fragment in the prefix is the specification's sample of the COMPLETE file (sync flag excluded, see Props/C11.v). Oracle: EVERY cut of generated (all layouts) and canned files on the real reader.",
            "Coq prefix-stability proofs + exhaustive cut enumeration",
            "Known finding D92 (hybrid files with sample table AND fragments). Props/C11.v uses the same fuel for prefix and full run; Props/C11Open.v does not (open_fuel_more). " + TB),
    "C12": ("proof",
            "Kernel-checked mechanisms (Props/C12.v): 64-bit headers decode identically (hdr64, 13 boxes + generic), unknown/free boxes are skipped by the loop combinator in "
            "every guard configuration (instances: top level and 10 containers), spare bytes after fixed-layout and table boxes are ignored (13 boxes), different-typed siblings "
            "commute; layout_invariance for ten containers and the top level; sample offsets shift with the data. Oracle: metamorphic comparison of layout variants on the real reader.",
            "Coq proofs of the skipping/commutation mechanisms + metamorphic layout variants",
            "Props/C12Tree.v: the property as ONE theorem over box trees (C12_tree_canonical, C12_tree_forward) for trees with a structural decoding (every ISO rendering of well-formed values); "
            "the first formalisation over arbitrary trees is refuted (C12_first_statement_is_false). Fragmented files are outside the tree theorem and have Props/C12Frag.v: a fragmented file as any list of top-level items "
            "(ftyp, moov, moof, mdat, emsg in either header form, skipped boxes, any order); two lists with the same logical content open to equal per-sample results with offsets shifted by exactly the moof "
            "displacement (C12_frag_layout). stsd/edts/hev1/vp09/dref read one child and are "
            "outside 'containers that iterate'. " + TB),
    "C15": ("proof",
            "PARTIAL. Kernel-checked for the model: read_sample's result is independent of the stream position, the stream content is immutable, and any schedule of calls "
            "returns call by call what a fresh reader returns. The model's state (immutable reader record + stream; writer records) is tied to the source by the regenerated lemma "
            "state_is_the_models (Props/C15.v): the four stateful structs have exactly the model's fields and the crate uses no interior mutability or global state. Iteration order / "
            "allocator- or hash-seed-dependent behaviour of live Rust objects cannot be exhibited by a pure model: exercised by random call schedules vs fresh readers (and, in every "
            "read-side check, by repeating every sample call on the same reader in reverse and scrambled order), the same bytes opened in separate processes, the same history muxed three times.",
            "Coq purity proofs + source-regenerated state table + schedule exploration on the real reader",
            "Labelled partial: determinism of the real objects is exploration-level evidence. " + TB),
})

CHECKS.update({
    "C07": ("proof",
            "Kernel-checked (Props/C07.v, C07_statement): for every byte string (true length < 2^62) and fuel > length, both build modes, read_header and read_fragment_header never "
            "run out of fuel (no input makes the reader loop without consuming input) and their stream calls + bytes moved + CPU steps are bounded by A*n + B with explicit numerals; "
            "read_sample makes at most 2 stream calls and moves at most min(n, sample size) bytes. Metered Hoare logic over the model's interpreter; one termination-and-cost rule for "
            "the container loop; every decoder has a cost contract. Tie: the model's meters EQUAL the counting stream wrapper's counters on every input that opens. Oracle: linear budget "
            "with small constants (16n+10000 calls, 32n+100000 bytes) and a watchdog on scaled adversarial families.",
            "Coq metered-cost proofs + meter/counter equality + budgeted exploration",
            "The theorem's constants are crude (A ~ 7e16: constant bounds for the u8/u16-counted codec records enter at every nesting level); the run-time budget is far tighter. CPU cost "
            "of the pure lookups (no stream calls): Props/C07Lookup.v — instrumented copies of every lookup loop of track.rs (first component proved equal to the model's lookup) perform at most "
            "5*table_weight+1 iterations per read_sample for EVERY track value, and table_weight of an opened file <= the stream calls of opening <= A*n+B; the iteration counters themselves are "
            "not observable in the Rust code (no hook), the oracle measures per-call wall time. " + TB),
    "C08": ("proof",
            "Kernel-checked (Props/C08.v, C08_statement): for every byte string the largest single allocation request and the total requested while opening are bounded by A'*n + B' "
            "(every count field is checked against the enclosing box size before Vec::with_capacity; box sizes are bounded by the parent, ultimately by the file length); read_sample "
            "allocates at most 2*size+32 <= 2n+32. Tie: model allocation events vs the counting global allocator (upper bound). Oracle: largest request <= 16n+65536, peak <= 64n+262144.",
            "Coq allocation-bound proofs over Alloc events + counting allocator",
            "u8/u16-counted vectors (avcC, hvcC: up to 2 MiB) are constants inside B'. Vec growth and HashMap internals are allocator detail (upper bound, not equality). " + TB),
    "C18": ("proof",
            "Kernel-checked (Props/C18.v): metadata_sound — decoding the independent reference rendering (Iso/IsoMeta.v) of any tag set (any subset of title/year/poster/summary, "
            "year as decimal text or 4-byte binary, any item order, unknown items interleaved, meta with or without the version/flags word, hdlr before or after ilst, any handler) "
            "with the model decoder at any position returns exactly the tags (all None for a handler other than mdir); metadata_file_sound lifts it to open(); absence theorems. "
            "Oracle: the four accessors on reference-rendered files vs the abstract tag set; edge forms (signed/padded/overflowing year text, odd binary lengths, duplicates) by correspondence.",
            "Coq proof against an independent renderer + tag oracle on the real reader",
            "Known finding D93 (data types outside {0,1,13,21}, e.g. PNG covers). A version-less meta box is only recognised when hdlr comes first (QuickTime layout). " + TB),
})

PENDING = {"C07": "check runs (counters vs linear budget, model meters = implementation counters) but its Coq cost theorems are still being proved; not claimed yet",
           "C08": "check runs (counting allocator vs linear bound) but its Coq allocation theorems are still being proved; not claimed yet",
           "C18": "check runs (tag oracle + model correspondence) but its Coq theorem is still being proved; not claimed yet"}


def main():
    props = [json.loads(l)["id"] for l in open(os.path.join(VERIF, "properties.jsonl"))]
    extra = json.load(open(os.path.join(VERIF, "gen", "manifest_extra.json"))) if os.path.exists(os.path.join(VERIF, "gen", "manifest_extra.json")) else {}
    checks = []
    for p in props:
        ent = CHECKS.get(p) or extra.get(p)
        if not ent:
            continue
        cat, text, tech, note = ent
        checks.append({"property_id": p, "quick_cmd": "./mp4v check %s --tier quick" % p, "thorough_cmd": "./mp4v check %s --tier thorough" % p,
                       "evidence_file": "evidence/%s.json" % p, "replay_cmd_template": "./mp4v replay {path}", "engine": "coq-model",
                       "level_claimed": {"category": cat, "text": text, "design_ref": "DESIGN.md 5 (%s)" % p}, "level_note": note, "technique": tech})
    claimed = [c["property_id"] for c in checks]
    m = {"version": 1, "setup_cmd": "./mp4v setup",
         "hooks": {"guard": "mp4_verif", "enable": "RUSTFLAGS=\"--cfg mp4_verif\" (no source hooks are needed; the harness uses the public API only)",
                   "baseline_off_cmd": "cd /repo && cargo test --workspace --no-fail-fast --offline", "source_commits": [], "add_only": True},
         "engines": [{"name": "coq-model", "path": "coq/", "serves_properties": claimed,
                      "kind_free_text": "hand-written Gallina model of mp4-rust + regenerated tables + independent ISO reference/specifications; kernel-checked "
                                        "theorems; extracted to OCaml for the correspondence with the Rust harness and as oracles"}],
         "checks": checks, "notes": "see DESIGN.md",
         "not_applicable": [{"property_id": p, "reason": PENDING.get(p, "check not registered yet (under construction; see DESIGN.md)")} for p in props if p not in claimed]}
    json.dump(m, open(os.path.join(VERIF, "MANIFEST.json"), "w"), indent=1)
    print("claimed:", claimed)


if __name__ == "__main__":
    main()
