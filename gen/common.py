"""Common machinery of the mp4v driver: builds, scans, evidence, verdicts."""
import fcntl
import hashlib
import importlib
import json
import os
import re
import shutil
import subprocess
import sys
import time

VERIF = os.path.dirname(os.path.dirname(os.path.abspath(__file__)))
REPO = os.environ.get("MP4_REPO", "/repo")
WORK = os.path.join(VERIF, ".work")
COQ = os.path.join(VERIF, "coq")
TARGET = os.path.join(WORK, "target")
OCAML_BUILD = os.path.join(WORK, "ocaml")
NPROC = os.cpu_count() or 4

ENV = dict(os.environ)
ENV.update({"CARGO_NET_OFFLINE": "true", "CARGO_TARGET_DIR": TARGET})

ALLOWED_AXIOMS = set()  # the development is axiom-free; nothing is allow-listed

FORBIDDEN = re.compile(
    r"\b(Admitted|admit|Axiom|Axioms|Parameter|Parameters|Conjecture|Conjectures|Admit Obligations)\b"
    r"|Unset Guard Checking|Unset Positivity Checking|Unset Universe Checking|bypass_check"
    r"|type-in-type|impredicative-set"
)


def sh(cmd, cwd=None, timeout=3600, env=None, inp=None):
    p = subprocess.run(cmd, cwd=cwd, env=env or ENV, input=inp, stdout=subprocess.PIPE,
                       stderr=subprocess.STDOUT, timeout=timeout, text=True, shell=isinstance(cmd, str))
    return p.returncode, p.stdout


class Lock:
    def __enter__(self):
        os.makedirs(WORK, exist_ok=True)
        self.f = open(os.path.join(WORK, "build.lock"), "w")
        fcntl.flock(self.f, fcntl.LOCK_EX)
        return self

    def __exit__(self, *a):
        fcntl.flock(self.f, fcntl.LOCK_UN)
        self.f.close()


# ---------------------------------------------------------------- translator
def regen():
    """Regenerate Gen/Tables.v from /repo's current source. Returns the list of untranslatable items."""
    rc, out = sh([sys.executable, os.path.join(VERIF, "translator", "rust2gen.py"), REPO,
                  os.path.join(COQ, "theories", "Gen")])
    t = json.load(open(os.path.join(COQ, "theories", "Gen", "tables.json")))
    return t.get("untranslatable", [])


def gen_tables():
    return json.load(open(os.path.join(COQ, "theories", "Gen", "tables.json")))


# ---------------------------------------------------------------- Coq
def coq_project():
    """_CoqProject = fixed option lines + every theories/*/*.v (sorted); rewritten only when the list changes"""
    import glob
    cp = os.path.join(COQ, "_CoqProject")
    head = [l for l in open(cp).read().split("\n") if l.startswith("-")]
    files = sorted(os.path.relpath(f, COQ) for f in glob.glob(os.path.join(COQ, "theories", "*", "*.v")))
    text = "\n".join(head + files) + "\n"
    if open(cp).read() != text:
        open(cp, "w").write(text)


def coq_makefile():
    coq_project()
    mk = os.path.join(COQ, "Makefile.coq")
    cp = os.path.join(COQ, "_CoqProject")
    if not os.path.exists(mk) or os.path.getmtime(mk) < os.path.getmtime(cp):
        sh(["coq_makefile", "-f", "_CoqProject", "-o", "Makefile.coq"], cwd=COQ)


def coq_build(targets=None, timeout=3000):
    """Full .vo build of the given targets (default: everything). Returns (ok, log)."""
    coq_makefile()
    os.makedirs(os.path.join(VERIF, "ocaml", "extracted"), exist_ok=True)
    cmd = ["make", "-f", "Makefile.coq", "-j%d" % NPROC]
    if targets:
        cmd += targets
    try:
        rc, out = sh(cmd, cwd=COQ, timeout=timeout)
    except subprocess.TimeoutExpired:
        return False, "coq build timed out"
    return rc == 0, out


def scan_sources():
    """No Admitted/admit/Axiom/Parameter/..., no Variable/Hypothesis outside a Section."""
    problems = []
    for root, _, files in os.walk(os.path.join(COQ, "theories")):
        for fn in files:
            if not fn.endswith(".v"):
                continue
            path = os.path.join(root, fn)
            text = open(path).read()
            # strip comments (nested) and strings
            out = []
            depth = 0
            i = 0
            instr = False
            while i < len(text):
                if not instr and text.startswith("(*", i):
                    depth += 1
                    i += 2
                    continue
                if not instr and depth > 0 and text.startswith("*)", i):
                    depth -= 1
                    i += 2
                    continue
                if depth == 0:
                    if text[i] == '"':
                        instr = not instr
                    elif not instr:
                        out.append(text[i])
                i += 1
            code = "".join(out)
            for m in FORBIDDEN.finditer(code):
                problems.append("%s: forbidden token %r" % (os.path.relpath(path, VERIF), m.group(0)))
            sec = 0
            for m in re.finditer(r"\b(Section|Module|End|Variable|Variables|Hypothesis|Hypotheses|Context)\b\s+(\w*)", code):
                k = m.group(1)
                if k in ("Section",):
                    sec += 1
                elif k == "End":
                    sec = max(0, sec - 1)
                elif k in ("Variable", "Variables", "Hypothesis", "Hypotheses", "Context") and sec == 0:
                    problems.append("%s: %s outside a Section" % (os.path.relpath(path, VERIF), k))
    return problems


def theorem_names(vfile):
    text = open(vfile).read()
    return re.findall(r"^\s*(?:Theorem|Lemma|Corollary|Example|Remark|Fact)\s+(\w+)", text, flags=re.M)


def count_obligations(vfiles):
    n = 0
    for f in vfiles:
        n += len(theorem_names(f))
    return n


QFLAGS = []
for d in ("Base", "Gen", "Iso", "Model", "Spec", "Proofs", "Props", "Extract"):
    QFLAGS += ["-Q", os.path.join("theories", d), "MP4"]


def print_assumptions(prop_module, names):
    """Run Print Assumptions for every named theorem of a compiled Props module (in parallel batches: it is the slowest step of the proof layer)."""
    os.makedirs(os.path.join(WORK, "assum"), exist_ok=True)
    nb = min(NPROC, max(1, len(names) // 3))
    batches = [names[i::nb] for i in range(nb)]
    batches = [b for b in batches if b]
    outs = [None] * len(batches)
    import threading

    def work(bi):
        vf = os.path.join(WORK, "assum", "Assum_%s_%d.v" % (prop_module, bi))
        with open(vf, "w") as f:
            f.write("From MP4 Require Import %s.\n" % prop_module)
            for n in batches[bi]:
                f.write('Goal True. idtac "@@ %s". exact I. Qed.\nPrint Assumptions %s.\n' % (n, n))
        try:
            rc, out = sh(["coqc", "-noglob"] + QFLAGS + ["-Q", os.path.join(WORK, "assum"), "Assum", vf], cwd=COQ, timeout=900)
        except subprocess.TimeoutExpired:
            rc, out = 124, ""
        outs[bi] = out
    ths = [threading.Thread(target=work, args=(i,)) for i in range(len(batches))]
    for t in ths:
        t.start()
    for t in ths:
        t.join()
    out = "\n".join(o or "" for o in outs)
    rc = 0
    res = {}
    cur = None
    for line in out.splitlines():
        if line.startswith("@@ "):
            cur = line[3:].strip()
            res[cur] = []
        elif cur is not None and line.strip():
            res[cur].append(line.rstrip())
    bad = []
    for n in names:
        lines = res.get(n)
        if lines is None:
            bad.append("%s: no Print Assumptions output" % n)
            continue
        txt = " ".join(lines)
        if "Closed under the global context" in txt:
            continue
        # "Axioms:" followed by names
        axioms = [l.split(":")[0].strip() for l in lines if ":" in l and not l.startswith("Axioms")]
        extra = [a for a in axioms if a and a not in ALLOWED_AXIOMS]
        if extra or not axioms:
            bad.append("%s: depends on %s" % (n, ", ".join(extra) if extra else txt[:200]))
    return rc, out, bad


def ocaml_build():
    src = [os.path.join(VERIF, "ocaml", "extracted", "model.ml"),
           os.path.join(VERIF, "ocaml", "extracted", "model.mli"),
           os.path.join(VERIF, "ocaml", "driver.ml")]
    for s in src:
        if not os.path.exists(s):
            return False, "missing " + s
    h = hashlib.sha256()
    for s in src:
        h.update(open(s, "rb").read())
    digest = h.hexdigest()
    os.makedirs(OCAML_BUILD, exist_ok=True)
    stamp = os.path.join(OCAML_BUILD, "stamp")
    exe = os.path.join(OCAML_BUILD, "driver")
    if os.path.exists(exe) and os.path.exists(stamp) and open(stamp).read() == digest:
        return True, "cached"
    for s in src:
        shutil.copy(s, OCAML_BUILD)
    rc, out = sh(["ocamlfind", "ocamlopt", "-package", "unix", "-linkpkg", "-w", "-a", "-o", "driver", "model.mli", "model.ml", "driver.ml"],
                 cwd=OCAML_BUILD, timeout=1200)
    if rc == 0:
        open(stamp, "w").write(digest)
    return rc == 0, out


def model_run(lines, shards=None, timeout=3600):
    """Feed command lines to the extracted model, return the answer lines (sharded over processes).
    The driver runs under an address-space limit; a case that exhausts it (unary nat fuel from a huge count field)
    answers 'EXN Out_of_memory'; if the process dies the fatal case answers 'EXN died' and the shard restarts after it."""
    exe = os.path.join(OCAML_BUILD, "driver")
    if not lines:
        return []
    shards = shards or min(NPROC, max(1, len(lines) // 50))
    chunks = [lines[i::shards] for i in range(shards)]
    outs = [None] * shards
    import threading

    def work(i):
        todo = chunks[i]
        got = []
        while len(got) < len(todo):
            rest = todo[len(got):]
            p = subprocess.Popen(["bash", "-c", "ulimit -s unlimited 2>/dev/null; ulimit -v 3000000; exec " + exe], stdin=subprocess.PIPE,
                                 stdout=subprocess.PIPE, stderr=subprocess.DEVNULL, text=True)
            try:
                o, _ = p.communicate("\n".join(rest) + "\n", timeout=timeout)
            except subprocess.TimeoutExpired:
                p.kill()
                o, _ = p.communicate()
                ol = o.split("\n")
                if ol and ol[-1] == "":
                    ol.pop()
                got.extend(ol[:len(rest)])
                if len(got) < len(todo):
                    got.append("EXN timeout")
                continue
            ol = o.split("\n")
            if ol and ol[-1] == "":
                ol.pop()
            got.extend(ol[:len(rest)])
            if len(got) < len(todo):
                got.append("EXN died rc=%s" % p.returncode)
        outs[i] = got

    ths = [threading.Thread(target=work, args=(i,)) for i in range(shards)]
    for t in ths:
        t.start()
    for t in ths:
        t.join()
    res = [None] * len(lines)
    for i in range(shards):
        for j, _ in enumerate(chunks[i]):
            res[i + j * shards] = outs[i][j] if j < len(outs[i]) else "EXN missing"
    return res


# ---------------------------------------------------------------- Rust harness
def harness_dir():
    """the harness crate; when MP4_REPO points elsewhere than /repo a copy with the dependency path rewritten is used"""
    hdir = os.path.join(VERIF, "harness")
    if os.path.realpath(REPO) == "/repo":
        return hdir
    alt = os.path.join(WORK, "harness_alt")
    if os.path.exists(alt):
        shutil.rmtree(alt)
    shutil.copytree(hdir, alt, ignore=shutil.ignore_patterns("target"))
    p = os.path.join(alt, "Cargo.toml")
    txt = open(p).read().replace('path = "/repo"', 'path = "%s"' % REPO)
    open(p, "w").write(txt)
    return alt


def harness_build(bins, profiles=("debug", "release")):
    hdir = harness_dir()
    lock = os.path.join(REPO, "Cargo.lock")
    if os.path.exists(lock):
        dst = os.path.join(hdir, "Cargo.lock")
        if not os.path.exists(dst):
            shutil.copy(lock, dst)
    logs = []
    ok = True
    env = dict(ENV)
    env["RUSTFLAGS"] = (env.get("RUSTFLAGS", "") + " --cfg mp4_verif -Awarnings").strip()
    for prof in profiles:
        cmd = ["cargo", "build", "--offline", "-q"]
        if prof == "release":
            cmd.append("--release")
        for b in bins:
            cmd += ["--bin", b]
        rc, out = sh(cmd, cwd=hdir, env=env, timeout=3000)
        if rc != 0 and "Cargo.lock" in out:
            # lock file out of date with the tree: refresh from /repo and retry once
            if os.path.exists(lock):
                shutil.copy(lock, os.path.join(hdir, "Cargo.lock"))
            rc, out = sh(cmd, cwd=hdir, env=env, timeout=3000)
        logs.append(out)
        ok = ok and rc == 0
    return ok, "\n".join(logs)


def harness_exe(name, profile):
    return os.path.join(TARGET, profile, name)


def harness_run(name, profile, lines, shards=None, timeout=3600, args=()):
    """Run a line-oriented harness binary over the case lines, sharded; returns one output line per case.
    A worker that dies (abort, stack overflow, OOM) is restarted after the fatal case, which is reported as 'ABORT'."""
    exe = harness_exe(name, profile)
    if not lines:
        return []
    shards = shards or min(NPROC, max(1, len(lines) // 50))
    chunks = [lines[i::shards] for i in range(shards)]
    outs = [None] * shards
    import threading

    def work(i):
        todo = chunks[i]
        got = []
        while len(got) < len(todo):
            rest = todo[len(got):]
            p = subprocess.Popen([exe] + list(args), stdin=subprocess.PIPE, stdout=subprocess.PIPE,
                                 stderr=subprocess.DEVNULL, text=True)
            try:
                o, _ = p.communicate("\n".join(rest) + "\n", timeout=timeout)
            except subprocess.TimeoutExpired:
                p.kill()
                o, _ = p.communicate()
                ol = [x for x in o.split("\n") if x != ""]
                got.extend(ol)
                got.append("TIMEOUT")
                continue
            ol = [x for x in o.split("\n") if x != ""]
            got.extend(ol[:len(rest)])
            if p.returncode != 0 and len(got) < len(todo):
                got.append("ABORT rc=%s%s" % (p.returncode, " (per-case watchdog: the case did not finish)" if p.returncode == 3 else ""))
        outs[i] = got

    ths = [threading.Thread(target=work, args=(i,)) for i in range(shards)]
    for t in ths:
        t.start()
    for t in ths:
        t.join()
    res = [None] * len(lines)
    for i in range(shards):
        for j, _ in enumerate(chunks[i]):
            res[i + j * shards] = outs[i][j] if j < len(outs[i]) else "MISSING"
    # answers that changed when the harness repeated a call on the same reader ("revisit": true in a read case)
    for line, o in zip(lines, res):
        if o and '"order_dep":[{' in o:
            try:
                oj, cj = json.loads(o), json.loads(line)
                for sub in (oj, oj.get("frag") if isinstance(oj.get("frag"), dict) else None):
                    if sub and sub.get("order_dep"):
                        ORDER_DEP.append((profile, cj, sub["order_dep"]))
            except Exception:
                pass
    return res


ORDER_DEP = []   # (profile, case json, [{"call", "first", "later"}])


# ---------------------------------------------------------------- findings, evidence, verdict
def known_findings():
    p = os.path.join(VERIF, "known_findings.json")
    if not os.path.exists(p):
        return []
    return json.load(open(p))["findings"]


class Report:
    """Collects what one check did and renders evidence + verdict lines."""

    def __init__(self, prop, tier):
        self.prop = prop
        self.tier = tier
        self.seed = int(os.environ.get("VERIF_SEED", "1"))
        self.t0 = time.time()
        self.violations = []      # (replay_path, no_input_found)
        self.known_lines = []
        self.coverage = {"samples": []}
        self.assumptions = []
        self.notes = []

    def replay_path(self, name):
        d = os.path.join(VERIF, "replays", self.prop)
        os.makedirs(d, exist_ok=True)
        return os.path.join(d, name)

    def violation(self, name, payload, no_input=False):
        path = self.replay_path(name + ".json")
        payload = dict(payload)
        payload.setdefault("property", self.prop)
        payload.setdefault("seed", self.seed)
        payload.setdefault("replay_cmd", "./mp4v replay %s" % os.path.relpath(path, VERIF))
        json.dump(payload, open(path, "w"), indent=1, default=str)
        self.violations.append((os.path.relpath(path, VERIF), no_input))

    def known(self, finding_id, what):
        self.known_lines.append("KNOWN-FINDING: property=%s %s %s" % (self.prop, finding_id, what))

    def finish(self, level="proof"):
        ev = {
            "property_id": self.prop,
            "tier": self.tier,
            "seed": self.seed,
            "level": level,
            "coverage": self.coverage,
            "assumptions": self.assumptions,
            "wall_s": round(time.time() - self.t0, 2),
            "violations": len(self.violations),
        }
        if self.notes:
            ev["coverage"]["notes"] = self.notes
        os.makedirs(os.path.join(VERIF, "evidence"), exist_ok=True)
        json.dump(ev, open(os.path.join(VERIF, "evidence", "%s.json" % self.prop), "w"), indent=1, default=str)
        for l in self.known_lines:
            print(l)
        # one VIOLATION line per distinct replay (at most 10 printed)
        for path, no_input in self.violations[:10]:
            print("VIOLATION property=%s replay=%s%s" % (self.prop, path, " no-failing-input-found" if no_input else ""))
        if not self.violations:
            print("OK property=%s tier=%s wall=%.1fs" % (self.prop, self.tier, time.time() - self.t0))
        return 1 if self.violations else 0


TRUSTED_BASE = [
    "Coq 8.16.1 kernel incl. vm_compute (no native_compute)",
    "axioms: none (Print Assumptions of every property theorem: Closed under the global context)",
    "translator/rust2gen.py (regex translation of table-shaped Rust code into Gen/Tables.v)",
    "extraction: ExtrOcamlBasic only (bool, option, unit, list, prod, sumbool, sumor mapped to OCaml; fst/snd/andb/orb/negb inlined); ocaml/driver.ml glue",
    "Rust harness (catch_unwind, Debug printing, stream wrappers), rustc/std/byteorder/bytes/serde behaviour: modelled, not verified",
    "all Rust code is modelled (Coq model tied by translator + correspondence), not verified directly",
]


def proof_layer(rep, prop_module, cone_files, extra_targets=(), untrans_filter=None):
    """Regenerate Gen, build the property's .vo cone, scan, Print Assumptions.
    prop_module: one Props module name or a list of them (all are built; every theorem of every module is checked).
    Returns (ok, details). On failure records nothing yet: the caller searches for a failing input first."""
    details = {}
    modules = [prop_module] if isinstance(prop_module, str) else list(prop_module)
    with Lock():
        untrans = regen()
        if untrans_filter is not None:
            untrans = [u for u in untrans if untrans_filter(u)]
        details["untranslatable"] = untrans
        targets = [os.path.join("theories", "Props", mod + ".vo") for mod in modules] + list(extra_targets)
        ok, log = coq_build(targets)
        details["coq_ok"] = ok
        if not ok:
            details["coq_log_tail"] = log[-3000:]
            m = re.search(r'File "\./(theories/[^"]+)", line (\d+)', log)
            details["failed_at"] = "%s:%s" % (m.group(1), m.group(2)) if m else "?"
        problems = scan_sources()
        details["scan_problems"] = problems
        names = []
        bad = []
        for mod in modules:
            mnames = theorem_names(os.path.join(COQ, "theories", "Props", mod + ".v"))
            if not mnames:
                bad.append("%s: no theorems" % mod)
            names += mnames
            if ok:
                _, _, b = print_assumptions(mod, mnames)
                bad += b
        details["theorems"] = names
        details["assumption_problems"] = bad
    vfiles = [os.path.join(COQ, "theories", f) for f in cone_files]
    missing = [f for f in vfiles if not os.path.exists(f)]
    details["missing_cone_files"] = [os.path.relpath(f, COQ) for f in missing]
    vfiles = [f for f in vfiles if os.path.exists(f)]
    obl = count_obligations(vfiles)
    all_ok = ok and not problems and not bad and not untrans and not missing and bool(names)
    rep.coverage["obligations"] = obl
    rep.coverage["discharged"] = obl if all_ok else 0
    rep.coverage["checker_cmd"] = "cd coq && make -f Makefile.coq %s && coqc Print Assumptions <each theorem>" % " ".join("theories/Props/%s.vo" % mod for mod in modules)
    rep.coverage["trusted_base"] = TRUSTED_BASE
    rep.coverage["theorems"] = names
    rep.coverage["print_assumptions"] = "Closed under the global context (all)" if all_ok else "see proof_details"
    if not all_ok:
        rep.coverage["proof_details"] = details
    return all_ok, details


def setup():
    t0 = time.time()
    os.makedirs(WORK, exist_ok=True)
    with Lock():
        regen()
        ok, log = coq_build(None, timeout=6000)
        if not ok:
            # stale or half-written build products (a copy of the tree taken while a build was running): remove every product and build once more
            print(log[-1500:])
            print("setup: coq build failed, cleaning all build products and retrying once")
            for root, _, files in os.walk(os.path.join(COQ, "theories")):
                for fn in files:
                    if fn.endswith((".vo", ".vos", ".vok", ".glob", ".aux")) or fn.startswith(".") and fn.endswith(".aux"):
                        try:
                            os.remove(os.path.join(root, fn))
                        except OSError:
                            pass
            for fn in (".Makefile.coq.d", "Makefile.coq", "Makefile.coq.conf"):
                try:
                    os.remove(os.path.join(COQ, fn))
                except OSError:
                    pass
            shutil.rmtree(os.path.join(VERIF, "ocaml", "extracted"), ignore_errors=True)
            ok, log = coq_build(None, timeout=6000)
        if not ok:
            print(log[-4000:])
            print("setup: coq build FAILED (checks will report it)")
        ok2, log2 = ocaml_build()
        if not ok2:
            print(log2[-2000:])
            print("setup: ocaml build FAILED")
        bins = [os.path.splitext(f)[0] for f in os.listdir(os.path.join(VERIF, "harness", "src", "bin"))]
        ok3, log3 = harness_build(bins)
        if not ok3:
            print(log3[-4000:])
            print("setup: harness build FAILED")
    print("setup done in %.0fs" % (time.time() - t0))
    return 0


def order_dependent(rep):
    """answers of sample_offset / read_sample that changed when the harness repeated the call on the same reader (ORDER_DEP, filled by
    harness_run): the first or the later answer is not the one the property prescribes for that file and sample id"""
    seen = 0
    for profile, case, deps in ORDER_DEP:
        if seen >= 3:
            break
        d = deps[0]
        rep.violation("order_dependent_%s_%d" % (profile, seen),
                      {"kind": "input", "what": "%s(track %s, sample %s) answered differently when asked again on the same reader" % (
                          {"off": "sample_offset", "rs": "read_sample"}.get(d["call"][0], d["call"][0]), d["call"][1], d["call"][2]),
                       "first": d["first"], "later": d["later"], "profile": profile, "case": case,
                       "replay_with": "harness run <profile>: feed the case line (cmd read, revisit true)"})
        seen += 1
    del ORDER_DEP[:]


def run_check(prop, tier):
    mod = importlib.import_module("check_" + prop.lower())
    rep = Report(prop, tier)
    try:
        mod.check(rep)
        order_dependent(rep)
    except Exception as e:  # a crash of the machinery is a broken check: report it as such, loudly
        import traceback
        traceback.print_exc()
        rep.violation("machinery_error", {"kind": "machinery", "error": repr(e)}, no_input=True)
    return rep.finish(getattr(mod, "LEVEL", "proof"))


def replay(path):
    p = path if os.path.isabs(path) else os.path.join(VERIF, path)
    d = json.load(open(p))
    print(json.dumps(d, indent=1)[:4000])
    prop = d.get("property")
    mod = importlib.import_module("check_" + prop.lower())
    if hasattr(mod, "replay"):
        return mod.replay(d)
    print("replay: re-running the check for", prop)
    return run_check(prop, "quick")
