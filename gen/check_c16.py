"""C16 — code and enumeration mappings exact over their whole domain.

proof:           Props/C16.v over the regenerated Gen/Tables.v (kernel-checked every run)
correspondence:  harness/sweep runs the REAL conversions over the complete finite domains
                 (2^32 codes, 2^16 pairs / language codes / raw values, all u8) and the printed
                 maps are compared with the regenerated tables and with the executable model
oracle:          the same maps compared with the standard's tables (Iso/IsoTables.v, exported
                 through the extracted driver) — a difference is a concrete failing input
"""
import json
import os

import common

LEVEL = "proof"
CONE = ["Props/C16.v", "Proofs/C16Proofs.v"]


def check(rep):
    proof_ok, details = common.proof_layer(rep, "C16", CONE, extra_targets=["theories/Extract/Extract.vo"],
                                            untrans_filter=lambda u: not (u.startswith("box_type of") or u.startswith("flags of") or u.startswith("const ")))
    with common.Lock():
        hb_ok, hb_log = common.harness_build(["sweep"], profiles=("release",))
        ob_ok, ob_log = common.ocaml_build()
    findings = {f["id"]: f for f in common.known_findings() if f["property"] == "C16" and f["status"] == "known"}
    if not ob_ok:
        rep.violation("model_build", {"kind": "obligation", "what": "extracted model does not build", "log": ob_log[-2000:]}, no_input=True)
        return
    if not hb_ok:
        rep.violation("harness_build", {"kind": "correspondence", "what": "harness/sweep does not compile against /repo (API or variant names changed)",
                                        "log": hb_log[-3000:]}, no_input=True)
        return
    iso = json.loads(common.model_run(["iso"], shards=1)[0])
    gen = common.gen_tables()
    rc, out = common.sh([common.harness_exe("sweep", "release"), str(common.NPROC)], timeout=3000)
    maps = {}
    for line in out.splitlines():
        if line.startswith("{"):
            d = json.loads(line)
            maps[d["map"]] = d
    fails = []   # (name, payload) concrete failing inputs (oracle: ISO tables / laws)
    ties = []    # (name, payload) model/Gen vs implementation differences

    def differ(name, observed, expected, what, into):
        if observed != expected:
            obs = set(map(lambda x: json.dumps(x), observed)) if isinstance(observed, list) else None
            exp = set(map(lambda x: json.dumps(x), expected)) if isinstance(expected, list) else None
            diff = None
            if obs is not None and exp is not None:
                diff = {"only_in_implementation": sorted(obs - exp)[:10], "only_in_expected": sorted(exp - obs)[:10]}
            into.append((name, {"kind": "input", "mapping": name, "what": what, "difference": diff,
                                "observed": observed if not isinstance(observed, (list, str)) or len(observed) < 50 else str(observed)[:500],
                                "expected": expected if not isinstance(expected, (list, str)) or len(expected) < 50 else str(expected)[:500]}))

    u = maps.get("u32")
    evals = 0
    if u is None:
        rep.violation("sweep_failed", {"kind": "correspondence", "what": "sweep produced no output", "log": out[-2000:]}, no_input=True)
        return
    evals += u["n"] * 6
    # --- box types
    # the standard's assignments must all be there; further variants (a box type added to the enumeration) are judged by losslessness only
    iso_bt = sorted([[c, n] for n, c in iso["boxtypes"]])
    iso_names = {n for n, c in iso["boxtypes"]}
    differ("boxtype_of_code", sorted(e for e in u["boxtype_known"] if e in iso_bt or e[1] in iso_names), iso_bt,
           "BoxType::from(u32) names a variant for exactly the standard's codes", fails)
    # (the sweep binary names the variants it was written against; a variant added to the enumeration since is reported as "?": it is identified by its code)
    gen_name = {c: n for n, c in gen["boxtype_table"]}
    differ("boxtype_of_code_vs_source_table", sorted([c, n if n != "?" else gen_name.get(c, "?")] for c, n in u["boxtype_known"]), sorted([[c, n] for n, c in gen["boxtype_table"]]),
           "compiled BoxType::from(u32) vs the table regenerated from the source", ties)
    for key, what in (("boxtype_roundtrip_fail", "u32 -> BoxType -> u32 is the identity"),
                      ("fourcc_fail", "u32 <-> FourCC <-> bytes are lossless"),
                      ("text_fail", "FourCC text form parses back (UTF-8 codes)"),
                      ("text_non_utf8_yet_lossless", "sanity: non-UTF-8 codes cannot have a lossless text form"),
                      ("fp16_raw_fail", "FixedPointU16 raw/value over all 2^32 raw values")):
        if u[key]:
            fails.append((key, {"kind": "input", "mapping": key, "what": what, "inputs": u[key]}))
    named = maps["boxtype_named"]["entries"]
    differ("boxtype_named", sorted([[n, c] for n, c, ok in named if ok]), sorted(iso["boxtypes"]),
           "BoxType variant -> u32 -> BoxType returns the variant, with the standard's code", fails)
    differ("tracktype_of_fourcc", sorted(u["tracktype_ok"]), sorted([[c, "%s:%d" % (k, c)] for k, h, c in iso["handlers"]]),
           "TrackType::try_from(&FourCC) accepts exactly the handler codes and converts back", fails)
    differ("datatype", sorted(u["datatype_ok"]), sorted([[c, "%s:%d" % (n, c)] for c, n in iso["datatype"]]),
           "DataType::try_from(u32) accepts exactly the well-known types with matching discriminants", fails)
    differ("datatype_vs_source", sorted([[c, s.split(":")[0]] for c, s in u["datatype_ok"]]),
           sorted([[v, n] for v, n in gen["enums"]["DataType"]["tryfrom"]]), "compiled vs regenerated DataType table", ties)
    # --- u8 enums
    evals += 3 * 256 + 65536
    differ("audio_object_type", maps["aot"]["entries"], [[c, n, c] for c, n in iso["aot"]],
           "AudioObjectType::try_from(u8) = ISO/IEC 14496-3 Table 1.17, discriminant = value", fails)
    differ("sample_freq_index", maps["sfi"]["entries"], [[c, n, c, f] for c, n, f in iso["sfi"]],
           "SampleFreqIndex::try_from(u8)/freq() = ISO/IEC 14496-3 Table 1.18", fails)
    differ("channel_config", maps["chan"]["entries"], [[c, n, c] for c, n in iso["chan"]],
           "ChannelConfig::try_from(u8) = ISO/IEC 14496-3 Table 1.19", fails)
    differ("aot_vs_source", [[a, b] for a, b, _ in maps["aot"]["entries"]], sorted(gen["enums"]["AudioObjectType"]["tryfrom"]),
           "compiled vs regenerated AudioObjectType table", ties)
    differ("sfi_vs_source", [[a, b] for a, b, _, _ in maps["sfi"]["entries"]], sorted(gen["enums"]["SampleFreqIndex"]["tryfrom"]),
           "compiled vs regenerated SampleFreqIndex table", ties)
    differ("chan_vs_source", [[a, b] for a, b, _ in maps["chan"]["entries"]], sorted(gen["enums"]["ChannelConfig"]["tryfrom"]),
           "compiled vs regenerated ChannelConfig table", ties)
    # --- AVC profile
    avc_obs, avc_exp = maps["avc"]["table"], iso["avc"]
    if avc_obs != avc_exp:
        bad = [i for i in range(65536) if avc_obs[i] != avc_exp[i]]
        i = bad[0]
        fails.append(("avc_profile", {"kind": "input", "mapping": "AvcProfile::try_from((u8,u8))", "input": [i >> 8, i & 255],
                                      "observed": avc_obs[i], "expected": avc_exp[i], "n_wrong": len(bad),
                                      "legend": "C=ConstrainedBaseline B=Baseline M=Main E=Extended H=High -=Err"}))
    # model's AvcProfile (driven by the regenerated mask/shift/arms) vs the compiled one, all pairs
    lines = ["avc_profile %x %x" % (p, c) for p in (0, 65, 66, 67, 77, 88, 100, 255) for c in range(256)]
    mo = common.model_run(lines)
    code = {"ok AvcConstrainedBaseline": "C", "ok AvcBaseline": "B", "ok AvcMain": "M", "ok AvcExtended": "E", "ok AvcHigh": "H", "data": "-"}
    k = 0
    for p in (0, 65, 66, 67, 77, 88, 100, 255):
        for c in range(256):
            if code.get(mo[k], "?") != avc_obs[p * 256 + c]:
                ties.append(("avc_model", {"kind": "correspondence", "mapping": "avc_profile_try_from", "input": [p, c],
                                           "model": mo[k], "implementation": avc_obs[p * 256 + c]}))
                break
            k += 1
    # --- kinds by text
    hk = {h: k for k, h, _ in iso["handlers"]}
    differ("tracktype_str", maps["tracktype_str"]["entries"], [[s, hk.get(s, "Err")] for s, _ in maps["tracktype_str"]["entries"]],
           "TrackType::try_from(&str)", fails)
    mk = {h: k for k, h in iso["media"]}
    differ("mediatype_str", maps["mediatype_str"]["entries"],
           [[s, ("%s:%s:%s:%s" % (mk[s], s, s, s)) if s in mk else "Err"] for s, _ in maps["mediatype_str"]["entries"]],
           "MediaType <-> &str (try_from, both From impls, Display)", fails)
    # --- fixed point
    evals += 2 * 256 + 3 * 65536
    if maps["fixed"]["failures"]:
        fails.append(("fixed_point", {"kind": "input", "mapping": "FixedPointU8/I8/U16", "inputs": maps["fixed"]["failures"]}))
    # --- from_str lengths
    for s, ok in maps["fourcc_from_str_len"]["entries"]:
        if ok:
            fails.append(("fourcc_from_str_len", {"kind": "input", "mapping": "FourCC::from_str", "input": s,
                                                  "observed": "Ok", "expected": "Err (not four bytes)"}))
    # --- language
    lang = maps["lang"]
    evals += 2 * 65536 + maps["lang_triples"]["n"]
    strings = lang["strings"].split(",")[:-1]
    bad_lang = None
    for c in range(65536):
        m = c % 32768
        exp = bytes([((m >> 10) & 31) + 96, ((m >> 5) & 31) + 96, (m & 31) + 96]).hex()
        if strings[c] != exp or lang["back"][c] != m:
            bad_lang = {"kind": "input", "mapping": "mdhd language", "input_code": c, "observed_string": strings[c],
                        "expected_string": exp, "observed_code_after_reencode": lang["back"][c], "expected_code": m}
            break
    if bad_lang or lang["errors"]:
        fails.append(("language_code", bad_lang or {"kind": "input", "mapping": "mdhd language", "errors": lang["errors"]}))
    if maps["lang_triples"]["failures"]:
        fails.append(("language_triples", {"kind": "input", "mapping": "mdhd language (letters)", "inputs": maps["lang_triples"]["failures"]}))
    # model's language codec vs the implementation over all 2^16 codes
    lines = ["lang_string %x" % c for c in range(0, 65536, 7)] + ["lang_code %s" % strings[c] for c in range(0, 65536, 7)]
    mo = common.model_run(lines)
    n = len(range(0, 65536, 7))
    for i, c in enumerate(range(0, 65536, 7)):
        if mo[i] != strings[c] or int(mo[n + i], 16) != lang["back"][c]:
            ties.append(("lang_model", {"kind": "correspondence", "mapping": "language_string/language_code", "input": c,
                                        "model": [mo[i], mo[n + i]], "implementation": [strings[c], lang["back"][c]]}))
            break
    # --- FourCC text: model Display/FromStr vs implementation on the 13^4 grid
    grid = [e.split(":") for e in maps["fourcc_text_grid"]["entries"].split(";") if e]
    evals += len(grid)
    lines = ["fourcc_display %s" % g[0] for g in grid]
    mo = common.model_run(lines)
    lines2 = ["fourcc_from_str %s" % (m if m != "-" else "-") for m in mo]
    mo2 = common.model_run(lines2)
    witness = None
    for g, d, b in zip(grid, mo, mo2):
        mb = b[3:] if b.startswith("ok ") else "e"
        impl_disp = g[1] if g[1] else "-"
        if d != impl_disp or mb != g[2]:
            ties.append(("fourcc_text_model", {"kind": "correspondence", "mapping": "FourCC Display/FromStr", "input": g[0],
                                               "model": [d, mb], "implementation": [impl_disp, g[2]]}))
            break
        if g[2] != g[0] and witness is None:
            witness = g
    # known finding D91: the text form is lossy for non-UTF-8 codes
    if u["text_non_utf8"] > 0:
        w = next((g for g in grid if g[0] == "a96e616d"), witness)
        what = "FourCC text form is lossy for the %d codes that are not UTF-8, e.g. 0x%s displays as %s and parses back as %s" % (
            u["text_non_utf8"], w[0], w[1], w[2])
        if "D91" in findings:
            rep.known("D91", what)
        else:
            fails.append(("fourcc_text_lossy", {"kind": "input", "mapping": "FourCC Display/FromStr", "input": w[0],
                                               "observed": {"display_hex": w[1], "parsed_back": w[2]}, "expected": "parses back to the same code",
                                               "n_codes": u["text_non_utf8"]}))

    rep.coverage.update({
        "evaluations": evals,
        "distinct_nontrivial": len(u["boxtype_known"]) + len(maps["aot"]["entries"]) + len(maps["sfi"]["entries"])
        + len(maps["chan"]["entries"]) + len(u["datatype_ok"]) + len(u["tracktype_ok"])
        + sum(1 for ch in avc_obs if ch != "-") + len(set(strings)) + len(grid),
        "rule": "complete finite domains enumerated on the compiled library (2^32 codes for BoxType/FourCC/TrackType/DataType/FixedPointU16, "
                "2^16 AvcProfile pairs, 2^16 language codes and raw values, all u8); non-trivial = domain points with a non-default image "
                "(named box types, accepted enum values, accepted profiles, distinct language strings, text-grid codes)",
        "exhaustive": True,
        "domain_sizes": {"u32": u["n"], "avc_pairs": 65536, "lang_codes": 65536, "letter_triples": maps["lang_triples"]["n"],
                         "fourcc_text_grid": len(grid), "non_utf8_codes": u["text_non_utf8"]},
    })
    rep.coverage["samples"] = [
        {"boxtype_known_first": u["boxtype_known"][:3]},
        {"avc_row_66": avc_obs[66 * 256:66 * 256 + 256][:80]},
        {"lang": [[c, strings[c], lang["back"][c]] for c in (0, 21956, 32768 + 21956, 65535)]},
        {"fourcc_text_grid": grid[:3] + [g for g in grid if g[0] == "a96e616d"]},
    ]
    rep.assumptions = ["the sweep binary is the compiled /repo library (release profile)",
                       "Iso/IsoTables.v was typed correctly from the standards"]

    for name, payload in fails[:10]:
        rep.violation(name, payload)
    if fails:
        return
    if not proof_ok:
        rep.violation("proof_obligation", {"kind": "obligation", "what": "Props/C16 no longer checks against the regenerated tables",
                                           "details": details, "searched": "complete domains of every mapping on the compiled library: no failing input"},
                      no_input=True)
        return
    for name, payload in ties[:10]:
        payload["what"] = payload.get("what", "") + " — correspondence between model (regenerated tables) and compiled library no longer holds; the oracle found no failing input on the complete domains"
        rep.violation(name, payload, no_input=True)
