"""C07 — parsing always terminates, with work linear in the input length.

proof:           Props/C07.v (termination of the container-loop combinator with fuel > remaining bytes; linear cost bounds over the metered interpreter)
correspondence:  the model's METERS (stream calls, bytes moved) of the extracted reader vs the counting Read+Seek wrapper around the real reader:
                 they must be EQUAL on every input where both succeed (and within the EOF slack of read_exact otherwise)
oracle:          counters of the real run against the linear budget ops <= 16 n + 10000, bytes <= 32 n + 100000 (open) and per call
                 ops <= 16 n + 1000, bytes <= sample size + 32 n; a per-case watchdog (worker timeout) catches non-termination; scaled
                 adversarial families n = 1k..64k check that the ratio does not grow
"""
import random

import common
import isogen
import readcheck

LEVEL = "proof"
CONE = ["Props/C07.v", "Props/C07Lookup.v", "Proofs/LookupCost.v", "Proofs/LookupCostOpen.v", "Base/Cost.v", "Proofs/CostProps.v", "Proofs/CostOpen.v", "Proofs/CostSample.v", "Proofs/CostLoop.v", "Proofs/CostCont.v", "Proofs/CostLeaf.v", "Proofs/CostLeaf2.v", "Proofs/CostLeaf3.v", "Proofs/CostBoxes.v", "Proofs/CostMp4a.v", "Proofs/CostMeta.v", "Proofs/CostTree.v"]


def budget_open(n):
    return 16 * n + 10000, 32 * n + 100000


def families(n):
    """adversarial shapes scaled to about n bytes"""
    B = isogen.Box
    out = []
    k = n // 8
    out.append(("free8", isogen.render([isogen.ftyp()] + [B("free")] * k).data))
    # boxes whose declared size is 2..7: the next header overlaps the previous one
    for s in (2, 3, 7):
        out.append(("overlap%d" % s, bytes(isogen.render([isogen.ftyp()]).data) + (b"\0\0\0" + bytes([s]) + b"free") * k))
    # deep nesting of unknown-in-known containers
    inner = B("udta", [B("free")] * (k // 2))
    out.append(("nested", isogen.render([isogen.ftyp(), B("moov", [isogen.mvhd(), B("trak", [isogen.tkhd(1), B("mdia", [inner])]), inner])]).data))
    # many zero-size headers inside containers (loop must stop)
    out.append(("zeros", isogen.render([isogen.ftyp(), B("moov", [isogen.mvhd(), isogen.Raw(b"\0" * (n // 2))]), isogen.Raw(b"\0" * (n // 2))]).data))
    # a large honest table
    cnt = max(1, n // 8)
    tr = [{"id": 1, "kind": "avc", "ts": 1000, "sizes": [1] * cnt, "chunks": [cnt], "deltas": [1] * cnt, "cts": None, "sync": None, "co64": False,
           "stts_split": lambda j: True}]
    r, _, _ = isogen.build_movie(tr)
    out.append(("bigtable", bytes(r.data)))
    # constant sample size, one huge chunk: lookups deep into the chunk must not iterate over the samples
    tb = {"stsc": [(1, 0xFFFFFFFF, 1)], "stsz": (1, 0xFFFFFFFF, []), "stts": [(0xFFFFFFFF, 1)], "ctts": None, "stss": None, "stco": [64]}
    for dur in (0, 90000):
        # (a non-zero duration makes the accessors that derive rates from counts and sizes — bitrate, frame_rate — do their work)
        for kind in ("avc", "ttxt"):
            tr = {"id": 1, "kind": kind, "ts": 1000, "tables": tb, "duration": dur}
            out.append(("fixed_size_huge_chunk_%s_%d" % (kind, dur), isogen.render([isogen.ftyp(), isogen.Box("moov", [isogen.mvhd(1000, dur), isogen.trak_of(tr)]), isogen.Box("mdat", [isogen.Raw(b"x" * min(n, 4096))])]).data))
    # k table boxes that DECLARE 12 bytes (too short for their own count field) with a count covering the rest of the file: a count guard derived from
    # the declared size rejects them; one that lets them through re-reads the rest of the file k times (quadratic)
    # (declared 12: too short for the count field itself; declared 16 / 20: exactly the fixed fields, no room for any entry)
    for typ, where, declared in ((b"elst", "edts", 12), (b"stts", "stbl", 12), (b"stsc", "stbl", 12), (b"stco", "stbl", 12), (b"stss", "stbl", 12), (b"ctts", "stbl", 12),
                                 (b"stsz", "stbl", 20), (b"stts", "stbl", 16), (b"co64", "stbl", 16), (b"elst", "edts", 16)):
        kk = max(2, n // 24)
        def shorts(counts):
            bs = []
            for c in counts:
                t = B(typ.decode(), [isogen.F(4, 0)] + ([isogen.F(4, 0)] if typ == b"stsz" else []) + [isogen.F(4, c)], size_override=declared)
                bs.append(B("edts", [t]) if where == "edts" else t)
            return bs
        def movie(counts):
            tr = {"id": 1, "kind": "avc", "ts": 1000, "sizes": [1], "chunks": [1], "deltas": [1], "cts": None, "sync": None, "co64": False}
            if where == "edts":
                tr["trak_extra"] = shorts(counts)
                return isogen.build_movie([tr])[0]
            r0, _, nodes = isogen.build_movie([tr])
            stbl = nodes[1].find("trak")[0].find("mdia")[0].find("minf")[0].find("stbl")[0]
            stbl.items = list(stbl.items) + shorts(counts)
            return isogen.render(nodes)
        r0 = movie([0] * kk)
        pos = [off for off, size, hdr, path in r0.boxes if path.endswith("/" + typ.decode()) and size == (20 if typ == b"stsz" else 16)]
        total = len(r0.data)
        counts = [max(1, (total - (o + 16)) // 12 - 1) for o in pos][-kk:]
        out.append(("short%d_%s_x%d" % (declared, typ.decode(), kk), bytes(movie(counts).data)))
    # k data information boxes whose data reference announces 2^32-1 entries and holds none, then a zero-size header: an entry loop that is not bounded
    # by the end of its own box walks over all the following boxes — k times
    kk = max(2, n // 24)
    tr = {"id": 1, "kind": "avc", "ts": 1000, "sizes": [1], "chunks": [1], "deltas": [1], "cts": None, "sync": None, "co64": False}
    for declared in (16, 24):
        r0, _, nodes = isogen.build_movie([tr])
        minf = nodes[1].find("trak")[0].find("mdia")[0].find("minf")[0]
        minf.items = list(minf.items) + [B("dinf", [B("dref", [isogen.F(4, 0), isogen.F(4, 0xFFFFFFFF)], size_override=declared)]) for _ in range(kk)] + [isogen.Raw(b"\0" * 8)]
        out.append(("dref_count_x%d_%d" % (kk, declared), bytes(isogen.render(nodes).data)))
    # k meta boxes WITHOUT a handler box, followed by a stray hdlr sibling: a search for the handler that runs past the end of its meta box
    # finds that one — k times
    # (32-byte meta boxes and a 32-byte hdlr: the stray handler box is not larger than the boxes whose overlong scan meets it; k = n/8 boxes, the budget is
    # computed from the actual file length)
    kk = max(2, n // 8)
    stray = isogen.full("hdlr", 0, 0, [isogen.F(4, 0), isogen.Raw(b"mdir"), isogen.Raw(b"\0" * 12)])
    for fullbox in (True, False):
        metas = [isogen.meta([B("free", [isogen.Raw(b"\0" * (12 if fullbox else 16))])], fullbox=fullbox, with_hdlr=False) for _ in range(kk)]
        out.append(("meta_nohdlr_x%d_%d" % (kk, fullbox), bytes(isogen.build_movie([{"id": 1, "kind": "avc", "ts": 1000, "sizes": [1], "chunks": [1], "deltas": [1], "cts": None, "sync": None, "co64": False}],
                                                                                     udta=isogen.udta(metas + [stray]))[0].data)))
    # 64-bit headers with sizes near the file length
    out.append(("large_hdr", isogen.render([isogen.ftyp()] + [B("free", [isogen.Raw(b"\0" * 8)], large=True)] * (k // 3)).data))
    # k sample entries whose esds descriptors claim to extend over z bytes of zero padding behind the moov box
    # (descriptor sizes were once trusted beyond their container: quadratic; fixed by "keep esds descriptors within ...")
    import struct

    def enc28(x):
        return bytes([0x80 | ((x >> 21) & 0x7f), 0x80 | ((x >> 14) & 0x7f), 0x80 | ((x >> 7) & 0x7f), x & 0x7f])
    k = max(2, n // 160)
    z = (n // 2) & ~1
    pad_start = 40 + 77 * k
    body = b""
    for i in range(k):
        off = 40 + 77 * i
        body += (struct.pack(">I4sII", 0x4d, b"stsd", 0, 1) + struct.pack(">I4s", 0x3d, b"mp4a") + b"\0" * 28 + struct.pack(">I4sI", 0x19, b"esds", 0)
                 + b"\x03" + enc28(pad_start + z - (off + 69)) + b"\0\0\0" + b"\x00" + enc28(pad_start - (off + 77)))

    def bx(t, p):
        return struct.pack(">I4s", 8 + len(p), t) + p
    out.append(("esds_overrun", bx(b"moov", bx(b"trak", bx(b"mdia", bx(b"minf", bx(b"stbl", body))))) + b"\0" * z))
    # sample entries whose child area is a run of child headers with sizes alternating between "up to the end of the entry" and a
    # minimal box: a decoder that descends into a child and later resumes behind a SMALLER sibling re-parses the same bytes
    # (work doubling per level).  For each entry kind x child type the decoder knows or skips.
    def entry_with_children(entry, fixed, child_types, count):
        kids = b""
        total = 8 + len(fixed) + 8 * count
        for i in range(count):
            here = 8 + len(fixed) + 8 * i
            sz = (total - here) if i % 2 == 0 else 16
            kids += struct.pack(">I4s", max(8, min(sz, total - here)), child_types[i % len(child_types)])
        return struct.pack(">I4s", total, entry) + fixed + kids
    m = max(8, min(90, n // 40))
    for entry, fixed, kinds in ((b"mp4a", b"\0" * 6 + b"\0\1" + b"\0" * 8 + b"\0\2\0\x10" + b"\0" * 4 + b"\xbb\x80\0\0", (b"wave", b"free", b"esds", b"chan")),
                                (b"avc1", b"\0" * 6 + b"\0\1" + b"\0" * 16 + b"\1\x40\0\xf0" + b"\0\x48\0\0\0\x48\0\0" + b"\0" * 4 + b"\0\1" + b"\0" * 32 + b"\0\x18\xff\xff", (b"pasp", b"avcC", b"colr", b"btrt"))):
        for ct in ((kinds[0],), kinds):
            ent = entry_with_children(entry, fixed, ct, m)
            stsd_b = struct.pack(">I4sII", 16 + len(ent), b"stsd", 0, 1) + ent
            out.append(("entry_children_%s_%d" % (entry.decode(), len(ct)), bytes(isogen.render([isogen.ftyp()]).data) + bx(b"moov", bx(b"trak", bx(b"mdia", bx(b"minf", bx(b"stbl", stsd_b)))))))
    return [(name, bytes(d)) for name, d in out]


def corpus(rep):
    rng = random.Random(rep.seed * 7919 + 7)
    quick = rep.tier == "quick"
    cases = []
    for n, d in readcheck.canned():
        cases.append((n, {"data": d}))
    for name, r, _ in readcheck.valid_files(rng, 6 if quick else 30):
        data = bytes(r.data)
        cases.append((name, {"data": data}))
        roles = {"size", "largesize", "count", "run_count", "spc", "first_chunk", "sample_size", "length", "size_entry", "chunk_offset"}
        for lab, m in readcheck.field_mutations(r, rng, per_field=6 if quick else None, roles=roles):
            cases.append((name + ":" + lab, {"data": m}))
        for lab, m in readcheck.pair_mutations(r, rng, 40 if quick else 400):
            cases.append((name + ":" + lab, {"data": m}))
        for lab, m in readcheck.havoc(data, rng, 30 if quick else 300):
            cases.append((name + ":" + lab, {"data": m}))
    for n in ((1000, 4000, 16000) if quick else (1000, 4000, 16000, 64000)):
        for name, d in families(n):
            cases.append(("family:%s:%d" % (name, n), {"data": d}))
    init = next(d for n, d in readcheck.canned() if n == "minimal_init.mp4")
    bombs = readcheck.frag_default_bombs(init)
    cases += [("family:" + lab, c) for lab, c in (bombs[::5] if quick else bombs)]
    for name, r, _ in [f for i, f in enumerate(readcheck.valid_files(random.Random(rep.seed + 77), 4 if quick else 9)) if not quick or i in (0, 3)]:   # file 3 carries an edit list
        cases += [("family:%s:%s" % (name, lab), c) for lab, c in readcheck.short_table_bombs(r)]
    return cases


def check(rep):
    proof_ok, details = common.proof_layer(rep, ["C07", "C07Lookup"], CONE, extra_targets=["theories/Extract/Extract.vo"])
    with common.Lock():
        hb_ok, hb_log = common.harness_build(["run"])
        ob_ok, ob_log = common.ocaml_build()
    if not ob_ok or not hb_ok:
        rep.violation("build", {"kind": "correspondence", "what": "harness or extracted model does not build", "log": (hb_log + ob_log)[-3000:]}, no_input=True)
        return
    cases = corpus(rep)
    fails, ties = [], []
    stats = {"cases": len(cases), "open_ok": 0, "model_skipped": 0, "max_ops_per_byte": 0.0, "max_bytes_per_byte": 0.0, "families": {}}
    distinct = set()
    for profile in ("release", "debug"):
        res = readcheck.run_both([c for _, c in cases], profile, revisit=False)
        for (label, c), (impl, model) in zip(cases, res):
            n = len(c["data"])
            if "dead" in impl:
                fails.append(("hang_%s_%d" % (profile, len(fails)), {"kind": "input", "what": "worker timed out or died: %s" % str(impl["dead"])[:80], "case": label,
                                                                     "profile": profile, "file": c["data"].hex()[:200000]}))
                continue
            bo, bb = budget_open(n)
            if impl["ops_open"] > bo or impl["moved_open"] > bb:
                fails.append(("budget_%s_%d" % (profile, len(fails)), {"kind": "input", "what": "read_header exceeds the linear budget: %d stream calls, %d bytes moved for n=%d"
                                                                                                % (impl["ops_open"], impl["moved_open"], n), "case": label, "profile": profile,
                                                                       "file": c["data"].hex()[:200000]}))
            if impl["call_max_ops"] > 16 * n + 1000 or impl["call_max_moved"] > 33 * n + 1000:
                fails.append(("call_budget_%s_%d" % (profile, len(fails)), {"kind": "input", "what": "a sample/accessor call exceeds the linear budget: %d calls, %d bytes for n=%d"
                                                                                                     % (impl["call_max_ops"], impl["call_max_moved"], n), "case": label, "profile": profile,
                                                                            "file": c["data"].hex()[:200000]}))
            if impl.get("us_total", 0) > 5_000_000 + 200 * n:
                fails.append(("slow_%s_%d" % (profile, len(fails)), {"kind": "input", "what": "case took %d us for n=%d" % (impl["us_total"], n), "case": label, "profile": profile,
                                                                     "file": c["data"].hex()[:200000]}))
            t = readcheck.correspondence(impl, model)
            if t == "skipped":
                stats["model_skipped"] += 1
            elif t:
                ties.append(("model_vs_impl_%s_%d" % (profile, len(ties)), dict(t, kind="correspondence", case=label, profile=profile, file=c["data"].hex()[:200000])))
            elif model is not None and "ops" in model:
                mo, mb = int(model["ops"], 16), int(model["moved"], 16)
                exact = impl.get("open") == "ok"
                if (exact and (mo, mb) != (impl["ops_open"], impl["moved_open"])) or not (mo <= impl["ops_open"] <= mo + 2 and impl["moved_open"] <= mb + n):
                    ties.append(("meters_%s_%d" % (profile, len(ties)), {"kind": "correspondence", "what": "stream-call / byte meters of the model and counters of the implementation differ",
                                                                         "model": [mo, mb], "impl": [impl["ops_open"], impl["moved_open"]], "case": label, "profile": profile,
                                                                         "file": c["data"].hex()[:200000]}))
            if profile == "release":
                stats["open_ok"] += 1 if impl.get("open") == "ok" else 0
                if n > 64:
                    stats["max_ops_per_byte"] = max(stats["max_ops_per_byte"], round(impl["ops_open"] / n, 3))
                    stats["max_bytes_per_byte"] = max(stats["max_bytes_per_byte"], round(impl["moved_open"] / n, 3))
                if label.startswith("family:"):
                    stats["families"][label] = [n, impl["ops_open"], impl["moved_open"], impl.get("us_open")]
                distinct.add(hash(c["data"]))
    rep.coverage.update({"evaluations": 2 * len(cases), "distinct_nontrivial": len(distinct),
                         "rule": "boundary values {0,1,7,8,15,16,2^16-1,2^31-1,2^31,2^32-1,2^63,2^64-1} in every box-size / entry-count / run-count / length field at every nesting "
                                 "level (single and pairwise), havoc, canned files, and scaled adversarial families (runs of 8-byte boxes, overlapping 2/3/7-byte boxes, nested containers, "
                                 "zero headers, a large honest table, 64-bit headers) at n = 1k/4k/16k(/64k); counters, not seconds, decide; distinct = distinct byte strings",
                         "input_distribution": stats})
    rep.coverage["samples"] = [{"case": cases[i][0], "n": len(cases[i][1]["data"])} for i in (3, len(cases) // 2, len(cases) - 1)]
    rep.assumptions = ["the counting wrapper sees every stream call (the library only uses Read/Seek on the wrapped stream)", "harness/run is the compiled /repo library"]
    for name, payload in fails[:5]:
        rep.violation(name, payload)
    if fails:
        return
    if not proof_ok:
        rep.violation("proof_obligation", {"kind": "obligation", "what": "Props/C07 no longer checks", "details": details,
                                           "searched": "%d inputs x 2 profiles: all within the linear budget" % len(cases)}, no_input=True)
        return
    for name, payload in ties[:5]:
        payload["searched"] = "%d inputs x 2 profiles: all within the linear budget" % len(cases)
        rep.violation(name, payload, no_input=True)
