"""Single-box cases for the codec properties (C04, C05): the shape space of every supported box type
(version 0/1, every combination of gating flag bits, optional children present/absent, list lengths 0..3)
x value sets {fingerprint, boundary, random} — rendered by the reference renderer gen/isogen.py."""
import itertools
import random

import isogen
from isogen import Box, F, Raw, full

U32 = 1 << 32


class Vals:
    """value source: fingerprint = every byte of every field distinct and non-zero; boundary = all ones; random"""

    def __init__(self, kind, rng):
        self.kind, self.rng, self.ctr = kind, rng, 0

    def u(self, width, cap=None):
        if self.kind == "fp":
            bs = []
            for _ in range(width):
                self.ctr = self.ctr % 250 + 1
                bs.append(self.ctr)
            v = int.from_bytes(bytes(bs), "big")
        elif self.kind == "max":
            v = (1 << (8 * width)) - 1
        elif self.kind == "zero":
            v = 0
        else:
            v = self.rng.randrange(1 << (8 * width))
        if cap is not None:
            v %= cap
        return v

    def s(self, width):
        v = self.u(width)
        return v - (1 << (8 * width)) if v >= 1 << (8 * width - 1) else v

    def bytes(self, n):
        return bytes(self.u(1) for _ in range(n))

    def lang(self):
        return bytes(0x60 + self.u(1, 27) % 27 or 0x61 for _ in range(3)) if self.kind != "zero" else b"und"


def leafs(v, rng):
    """yield (label, Box) for leaf boxes over their shape space"""
    yield "ftyp0", Box("ftyp", [Raw(v.bytes(4)), F(4, v.u(4))])
    for n in (1, 3):
        yield "ftyp%d" % n, Box("ftyp", [Raw(v.bytes(4)), F(4, v.u(4)), Raw(v.bytes(4 * n))])
    for ver in (0, 1):
        w = 8 if ver else 4
        yield "mvhd_v%d" % ver, full("mvhd", ver, v.u(3), [F(w, v.u(w)), F(w, v.u(w)), F(4, v.u(4)), F(w, v.u(w)), F(4, v.u(4)), F(2, v.u(2)), F(2, 0), F(8, 0)]
                                     + [F(4, v.u(4)) for _ in range(9)] + [Raw(b"\0" * 24), F(4, v.u(4))])
        yield "tkhd_v%d" % ver, full("tkhd", ver, v.u(3), [F(w, v.u(w)), F(w, v.u(w)), F(4, v.u(4)), F(4, 0), F(w, v.u(w)), F(8, 0), F(2, v.u(2)), F(2, v.u(2)), F(2, v.u(2)), F(2, 0)]
                                     + [F(4, v.u(4)) for _ in range(9)] + [F(4, v.u(4)), F(4, v.u(4))])
        lang = v.lang()
        yield "mdhd_v%d" % ver, full("mdhd", ver, v.u(3), [F(w, v.u(w)), F(w, v.u(w)), F(4, v.u(4)), F(w, v.u(w)), F(2, isogen.lang_code(lang) & 0x7fff), F(2, 0)])
        yield "mehd_v%d" % ver, full("mehd", ver, v.u(3), [F(w, v.u(w))])
        yield "tfdt_v%d" % ver, full("tfdt", ver, v.u(3), [F(w, v.u(w))])
        for n in (0, 1, 3):
            yield "elst_v%d_%d" % (ver, n), full("elst", ver, v.u(3), [F(4, n)] + [x for _ in range(n) for x in (F(w, v.u(w)), F(w, v.u(w)), F(2, v.u(2)), F(2, v.u(2)))])
    yield "mfhd", full("mfhd", v.u(1), v.u(3), [F(4, v.u(4))])
    yield "trex", full("trex", v.u(1), v.u(3), [F(4, v.u(4)) for _ in range(5)])
    yield "smhd", full("smhd", v.u(1), v.u(3), [F(2, v.u(2)), F(2, 0)])
    yield "vmhd", full("vmhd", v.u(1), v.u(3), [F(2, v.u(2)), F(2, v.u(2)), F(2, v.u(2)), F(2, v.u(2))])
    names = [b"", b"\0", b"VideoHandler\0", b"abc", "Vidéo\0".encode(), b"a\0b\0", "\U0001F3AC clip \u00fc\0".encode()]
    # names that look like counted (Pascal) strings: the first byte equals the number of bytes that follow it / the length of the field,
    # with and without the terminating NUL (a decoder must not interpret it)
    for n in (3, 32, 65, 86):
        names += [bytes([n]) + b"x" * n, bytes([n]) + b"y" * (n - 1), bytes([n]) + b"z" * (n - 1) + b"\0", bytes([n + 1]) + b"w" * (n - 1) + b"\0"]
    for i, name in enumerate(names):
        # hdlrc: the ISO form (UTF-8 name, one terminating NUL, none inside) — the reference rendering of a name; judged as canonical by C05
        iso_form = name.endswith(b"\0") and b"\0" not in name[:-1]
        yield "%s_%d_%d" % ("hdlrc" if iso_form else "hdlr", i, len(name)), full("hdlr", v.u(1), v.u(3), [F(4, 0), Raw(v.bytes(4)), Raw(b"\0" * 12), Raw(name)])
    for bits in range(32):
        flags = 0
        items = [F(4, v.u(4))]
        for b, (mask, wd) in enumerate(((0x1, 8), (0x2, 4), (0x8, 4), (0x10, 4), (0x20, 4))):
            if bits >> b & 1:
                flags |= mask
                items.append(F(wd, v.u(wd)))
        yield "tfhd_%02x" % flags, full("tfhd", 0, flags | (0x20000 if bits % 3 == 0 else 0), items)
    for bits in range(64):
        for n in ((0, 2) if bits % 4 else (0, 1, 3)):
            flags = 0
            items = [F(4, n)]
            if bits & 1:
                flags |= 0x1
                items.append(F(4, v.u(4)))
            if bits & 2:
                flags |= 0x4
                items.append(F(4, v.u(4)))
            per = [m for b, m in ((4, 0x100), (8, 0x200), (16, 0x400), (32, 0x800)) if bits & b]
            for m in per:
                flags |= m
            for _ in range(n):
                for m in per:
                    items.append(F(4, v.u(4)))
            yield "trun_%03x_%d" % (flags, n), full("trun", bits % 2, flags, items)
    for n in (0, 1, 3):
        yield "stts_%d" % n, full("stts", v.u(1), v.u(3), [F(4, n)] + [F(4, v.u(4)) for _ in range(2 * n)])
        yield "ctts_%d" % n, full("ctts", v.u(1), v.u(3), [F(4, n)] + [F(4, v.u(4)) for _ in range(2 * n)])
        yield "stss_%d" % n, full("stss", v.u(1), v.u(3), [F(4, n)] + [F(4, v.u(4)) for _ in range(n)])
        yield "stco_%d" % n, full("stco", v.u(1), v.u(3), [F(4, n)] + [F(4, v.u(4)) for _ in range(n)])
        yield "co64_%d" % n, full("co64", v.u(1), v.u(3), [F(4, n)] + [F(8, v.u(8)) for _ in range(n)])
        yield "stsz_var_%d" % n, full("stsz", v.u(1), v.u(3), [F(4, 0), F(4, n)] + [F(4, v.u(4)) for _ in range(n)])
        yield "stsz_fix_%d" % n, full("stsz", v.u(1), v.u(3), [F(4, max(1, v.u(4))), F(4, n if v.kind == "zero" else v.u(4))])
        # stsc: first_chunk increasing so that the derived first_sample bookkeeping succeeds
        fc = 1
        ents = []
        for _ in range(n):
            ents += [F(4, fc), F(4, v.u(2)), F(4, v.u(4))]
            fc += 1 + v.u(1, 3)
        yield "stsc_%d" % n, full("stsc", v.u(1), v.u(3), [F(4, n)] + ents)
    # stsc whose derived first_sample bookkeeping lands exactly on / just below / above 2^32-1 (checked u32 arithmetic in the decoder's second pass)
    for tag, runs in (("fs_max", [(1, 0xFFFFFFFE), (2, 1)]), ("fs_max_m1", [(1, 0xFFFFFFFD), (2, 1)]), ("fs_over", [(1, 0xFFFFFFFF), (2, 1)]),
                      ("fs_max_3", [(1, 0xFFFF), (0x10001, 0xFFFE), (0x10002, 7)]), ("fs_mul_over", [(1, 0x10000), (0x10001, 1)])):
        yield "stsc_" + tag, full("stsc", 0, 0, [F(4, len(runs))] + [x for fc, spc in runs for x in (F(4, fc), F(4, spc), F(4, 1))])
    for ver in (0, 1):
        yield "emsg_v%d" % ver, isogen.emsg(ver, v.u(4), v.u(8 if ver else 4), v.u(4), v.u(4), b"urn:" + bytes([97 + v.u(1, 26)]), b"v", v.bytes(v.u(1, 9)))
        yield "emsg_v%d_empty" % ver, isogen.emsg(ver, v.u(4), v.u(8 if ver else 4), v.u(4), v.u(4), b"", b"", b"")
        yield "emsg_v%d_utf8" % ver, isogen.emsg(ver, v.u(4), v.u(8 if ver else 4), v.u(4), v.u(4), "urn:b\u00fccher:\u2615".encode(), "caf\u00e9".encode(), v.bytes(3))
    for dt in (0, 1, 13, 21):
        for n in (0, 1, 20):
            yield "data_%d_%d" % (dt, n), isogen.data_box(dt, v.bytes(n))
    yield "vpcc", full("vpcC", 1, 0, [F(1, v.u(1)), F(1, v.u(1)), F(1, v.u(1)), F(1, v.u(1)), F(1, v.u(1)), F(1, v.u(1)), F(2, 0)])
    # url entries: the crate exports DinfBox only, so every url variant is wrapped in dinf > dref (a bare url box is also generated: the model decodes it)
    urls = [("url_self", full("url ", 0, 1)),
            ("url_loc", full("url ", 0, 0, [Raw(b"http://x/" + bytes([97 + v.u(1, 26)]) + b"\0")])),
            ("url_utf8", full("url ", 0, 0, [Raw("http://x/\u00e9t\u00e9\0".encode())])),
            ("url_fl0_nul", full("url ", 0, 0, [Raw(b"\0")]))]
    # the self-contained flag (bit 0) set together with a location string, other flag bits, an empty location without the flag
    for fl in (1, 3, 0x101, 0xFFFFFF, 2, 0xFFFFFE):
        urls.append(("url_fl%x_loc" % fl, full("url ", 0, fl, [Raw(b"file:///" + bytes([97 + v.u(1, 26)]) + b"\0")])))
        urls.append(("url_fl%x_empty" % fl, full("url ", 0, fl)))
    for n in (4, 33):
        urls.append(("url_counted_%d" % n, full("url ", 0, 0, [Raw(bytes([n]) + b"u" * (n - 1) + b"\0")])))
        yield "emsg_counted_%d" % n, isogen.emsg(n % 2, v.u(4), v.u(4), v.u(4), v.u(4), bytes([n]) + b"s" * (n - 1), bytes([n - 1]) + b"v" * (n - 1), v.bytes(2))
    for lab, u in urls:
        yield lab, u
        yield "dinf_" + lab, Box("dinf", [full("dref", v.u(1), v.u(3), [F(4, 1, "count"), u])])
    yield "dinf", isogen.dinf()


def entries(v, rng):
    w, h = v.u(2), v.u(2)
    # (1, 31) .. (31, 255): the SPS count is a 5-bit field, the PPS count a full byte — counts at and beyond 31 / 32
    for ns, npp in ((1, 1), (1, 0), (2, 2), (0, 0), (1, 31), (1, 32), (2, 33), (31, 255), (31, 0)):
        spss = [bytes([0x67]) + v.bytes(3 + i) for i in range(ns)]
        ppss = [bytes([0x68]) + v.bytes(2 + i) for i in range(npp)]
        first = spss[0] if spss else b"\0\0\0\0"
        avcc = Box("avcC", [F(1, 1), F(1, first[1]), F(1, first[2]), F(1, first[3]), F(1, 0xfc | v.u(1, 4)), F(1, 0xe0 | ns)]
                   + [x for s in spss for x in (F(2, len(s)), Raw(s))] + [F(1, npp)] + [x for s in ppss for x in (F(2, len(s)), Raw(s))])
        yield "avc1_%d_%d" % (ns, npp), isogen.visual_entry("avc1", w, h, [avcc])
    yield "avc1_pasp", isogen.visual_entry("avc1", w, h, [Box("pasp", [F(4, 1), F(4, 1)]), isogen.avcc()])
    many = tuple((0x80 | (32 + i % 3), (bytes([i]),)) for i in range(40))
    for arrays in ((), ((32, (b"\x40\x01",)),), ((0x80 | 33, (b"\x42\x01\x02", b"")), (34, ())), ((32, (b"\x40\x01\x0c",)), (33, (b"ab",))), ((33, (b"",) * 3),),
                   ((32, tuple(bytes([j % 256, j % 251]) for j in range(300))),), many,
                   ((33, (bytes(j % 253 for j in range(65535)),)),), ((0x80 | 34, (bytes(j % 251 for j in range(65534)), b"\x01")),)):
        items = [F(1, 1), F(1, v.u(1)), F(4, v.u(4)), F(6, v.u(6)), F(1, v.u(1)), F(2, 0xf000 | v.u(2, 4096)), F(1, 0xfc | v.u(1, 4)), F(1, 0xfc | v.u(1, 4)),
                 F(1, 0xf8 | v.u(1, 8)), F(1, 0xf8 | v.u(1, 8)), F(2, v.u(2)), F(1, v.u(1)), F(1, len(arrays))]
        for typ, nalus in arrays:
            items += [F(1, typ), F(2, len(nalus))] + [x for nn in nalus for x in (F(2, len(nn)), Raw(nn))]
        yield "hev1_%d_%d" % (len(arrays), sum(len(nn) for _, ns_ in arrays for nn in ns_)), isogen.visual_entry("hev1", w, h, [Box("hvcC", items)])
    yield "vp09", isogen.visual_entry("vp09", w, h, [full("vpcC", 1, 0, [F(1, v.u(1)), F(1, v.u(1)), F(1, v.u(1)), F(1, v.u(1)), F(1, v.u(1)), F(1, v.u(1)), F(2, 0)])])
    # the full 4-bit range of the channel configuration (values 8..15 have no ChannelConfig variant but are wire values) and of the frequency index
    wide = [(2, 3, ch, 0) for ch in (0, 3, 4, 5, 8, 9, 10, 11, 12, 13, 14, 15)] + [(2, fi, 2, 0) for fi in (1, 2, 5, 6, 7, 8, 9, 10, 13, 14)] + [(a, 4, 2, 0) for a in (3, 4, 6, 17, 23, 30)]
    # samplingFrequencyIndex 15: an explicit 24-bit frequency follows the index (known finding D95: the value has no field for it)
    wide += [(2, 15, 2, 0), (2, 15, 0, 0), (5, 15, 1, 0)]
    for aot, fi, ch, pad in [(2, 3, 2, 0), (1, 0, 1, 0), (5, 12, 7, 0), (29, 4, 6, 0), (2, 3, 2, 3), (36, 3, 2, 0), (32, 11, 1, 1)] + wide:
        yield "mp4a_%d_%d_%d_p%d" % (aot, fi, ch, pad), isogen.mp4a(aot, fi, ch, v.u(4), v.u(2), pad)
    yield "mp4a_noesds", Box("mp4a", [Raw(b"\0" * 6), F(2, 1), F(8, 0), F(2, 2), F(2, 16), F(4, 0), F(4, 48000 << 16)])
    yield "mp4a_wave", isogen.mp4a(2, 4, 2, 1000, 44100, 0, extra=[Box("free", [Raw(b"ab")])])
    yield "tx3g", Box("tx3g", [Raw(b"\0" * 6), F(2, v.u(2)), F(4, v.u(4)), F(1, v.u(1)), F(1, v.u(1)), Raw(v.bytes(4)), F(2, v.u(2)), F(2, v.u(2)), F(2, v.u(2)), F(2, v.u(2)),
                               Raw(v.bytes(12))])


def containers(v, rng):
    # sample-table containers from small movies of every kind
    for kind in ("avc", "hevc", "vp9", "aac", "ttxt"):
        for co64, cts, sync in itertools.product((False, True), (False, True), (False, True)):
            n = 3
            tr = [{"id": 1 + v.u(1, 5), "kind": kind, "ts": 1 + v.u(2), "sizes": [1 + v.u(1, 9) for _ in range(n)], "chunks": [2, 1], "deltas": [v.u(2) for _ in range(n)],
                   "cts": [v.s(2) for _ in range(n)] if cts else None, "sync": [1, 3] if sync else None, "co64": co64}]
            r, tracks, nodes = isogen.build_movie(tr, "moov_first", movie_ts=1 + v.u(2))
            moov = nodes[1]
            yield "moov_%s_%d%d%d" % (kind, co64, cts, sync), moov
            if kind == "avc" or (co64 and cts and sync):
                trak = moov.find("trak")[0]
                mdia = trak.find("mdia")[0]
                minf = mdia.find("minf")[0]
                stbl = minf.find("stbl")[0]
                for nm, b in (("trak", trak), ("mdia", mdia), ("minf", minf), ("stbl", stbl), ("stsd", stbl.find("stsd")[0])):
                    yield "%s_%s_%d%d%d" % (nm, kind, co64, cts, sync), b
    yield "moov_mvex_udta", Box("moov", [isogen.mvhd(), isogen.mvex([isogen.trex(1, 1, v.u(4), v.u(4), v.u(4))], isogen.mehd(v.u(4))),
                                          isogen.udta([isogen.meta([isogen.ilst([isogen.ilst_item(isogen.TITLE, 1, b"T")])])])])
    for with_mehd in (False, True):
        yield "mvex_%d" % with_mehd, isogen.mvex([isogen.trex(v.u(4), v.u(4), v.u(4), v.u(4), v.u(4))], isogen.mehd(v.u(8), 1) if with_mehd else None)
    yield "edts_none", isogen.edts(None)
    for ver in (0, 1):
        yield "edts_v%d" % ver, isogen.edts([(v.u(4), v.u(4), v.u(2), v.u(2))], ver)
    # fragments
    for with_tfdt, with_trun in itertools.product((False, True), (False, True)):
        kids = [isogen.tfhd(v.u(4), None, None, v.u(4))]
        if with_tfdt:
            kids.append(isogen.tfdt(v.u(4)))
        if with_trun:
            kids.append(isogen.trun(2, v.s(4), None, [v.u(4), v.u(4)], [v.u(4), v.u(4)], None, [v.s(4), v.s(4)]))
        yield "traf_%d%d" % (with_tfdt, with_trun), Box("traf", kids)
        yield "moof_%d%d" % (with_tfdt, with_trun), Box("moof", [isogen.mfhd(v.u(4)), Box("traf", kids), Box("traf", [isogen.tfhd(v.u(4))])])
    # metadata
    items = [isogen.ilst_item(isogen.TITLE, 1, b"Title " + bytes([65 + v.u(1, 26)])), isogen.ilst_item(isogen.YEAR, 1, b"%d" % (1900 + v.u(1, 120))),
             isogen.ilst_item(isogen.POSTER, 13, v.bytes(10)), isogen.ilst_item(isogen.SUMMARY, 1, b"sum")]
    for k in range(16):
        sel = [it for i, it in enumerate(items) if k >> i & 1]
        yield "ilst_%x" % k, isogen.ilst(sel)
    yield "ilst_binyear", isogen.ilst([isogen.ilst_item(isogen.YEAR, 0, (2000 + v.u(1, 30)).to_bytes(4, "big"))])
    for fullbox, handler, first in itertools.product((True, False), ("mdir", "mdta"), (True, False)):
        yield "meta_%d_%s_%d" % (fullbox, handler, first), isogen.meta([isogen.ilst(items[:2]), Box("free", [Raw(b"xy")])], fullbox, handler, first)
        yield "udta_%d_%s_%d" % (fullbox, handler, first), isogen.udta([isogen.meta([isogen.ilst(items)], fullbox, handler, first)])
    yield "udta_empty", isogen.udta([])


def all_cases(seed, tier):
    rng = random.Random(seed)
    kinds = ["fp", "max", "zero", "rnd"] + (["rnd"] * 4 if tier != "quick" else [])
    out = []
    for ki, kind in enumerate(kinds):
        v = Vals(kind, rng)
        for gen in (leafs, entries, containers):
            for label, box in gen(v, rng):
                out.append(("%s%d:%s" % (kind, ki, label), box))
    return out
