#!/usr/bin/env python3
"""Regenerates seeded/README.md from the meta.json files (gen/seedtest.py writes `confirmed` and `detection`)."""
import glob, json, os
VERIF = os.path.dirname(os.path.dirname(os.path.abspath(__file__)))
rows = []
for d in sorted(glob.glob(os.path.join(VERIF, "seeded", "*"))):
    if not os.path.isdir(d):
        continue
    m = json.load(open(os.path.join(d, "meta.json")))
    c = m.get("confirmed", {})
    ok = all(c.get(k) for k in ("patch_applies", "existing_tests_pass_with_change", "demo_passes_without_change", "demo_fails_with_change"))
    det = []
    for p, r in sorted(m.get("detection", {}).items()):
        if isinstance(r, dict):
            how = "failing input" if r.get("with_failing_input") else ("correspondence / proof obligation (no-failing-input-found)" if r.get("detected") else "MISSED")
            fr = r.get("first_replay") or {}
            det.append("%s: %s%s" % (p, how, (" — " + fr.get("what", "")[:110]) if fr.get("what") else ""))
    rows.append((os.path.basename(d), m.get("property"), "yes" if ok else "NO", (m.get("summary") or "").replace("|", "/").replace("\n", " ")[:260],
                 (m.get("needs") or "").replace("|", "/").replace("\n", " ")[:200], "; ".join(det)))
with open(os.path.join(VERIF, "seeded", "README.md"), "w") as f:
    f.write("# Seeded changes\n\nEach directory holds `patch.diff` (against /repo HEAD at the time), `demo.rs` (integration test: passes without, fails with the change) and `meta.json`.\n"
            "Produced by fresh sub-agents that saw only the property text and a scratch worktree; confirmed and evaluated by `gen/seedtest.py` (patch applied to /repo, the property's quick check run, /repo restored).\n\n")
    f.write("| change | property | confirmed | what it does | needs | caught by |\n|---|---|---|---|---|---|\n")
    for r in rows:
        f.write("| %s | %s | %s | %s | %s | %s |\n" % r)
    def parts(r):
        return [x.strip() for x in r[5].split("; ") if x.strip()]
    own = sum(1 for r in rows if any(x.startswith(r[1] + ":") and "MISSED" not in x for x in parts(r)))
    other = sum(1 for r in rows if not any(x.startswith(r[1] + ":") and "MISSED" not in x for x in parts(r)) and any("MISSED" not in x for x in parts(r)))
    none = [r[0] for r in rows if not any("MISSED" not in x for x in parts(r))]
    f.write("\n%d changes; %d are caught by the quick check of the property they were written against, %d more by the quick check of another property "
            "(listed in their row), %d by none (%s) — after the generator improvements listed in DESIGN.md section 9.\n" % (len(rows), own, other, len(none), ", ".join(none)))
print(open(os.path.join(VERIF, "seeded", "README.md")).read()[-300:])
