#!/usr/bin/env python3
"""Confirm and evaluate seeded changes (gen/seedtest.py <dir under /verif/seeded> [--checks C01,C02] [--skip-confirm]).

1. confirm, in a scratch worktree of /repo outside /repo and /verif: the patch applies, the crate builds, the existing suite passes with it,
   the demonstration passes WITHOUT the patch and FAILS with it;
2. evaluate: apply the patch to /repo, run the registered quick checks of the listed properties (default: the property the change targets),
   record exit status and VIOLATION lines, and restore /repo (git checkout -- .).
Results are written into <dir>/meta.json under "confirmed" and "detection"."""
import json
import os
import re
import shutil
import subprocess
import sys
import time

VERIF = os.path.dirname(os.path.dirname(os.path.abspath(__file__)))
REPO = "/repo"
ENV = dict(os.environ, CARGO_NET_OFFLINE="true")


def sh(cmd, cwd=None, timeout=3000):
    p = subprocess.run(cmd, cwd=cwd, shell=isinstance(cmd, str), stdout=subprocess.PIPE, stderr=subprocess.STDOUT, text=True, timeout=timeout, env=ENV)
    return p.returncode, p.stdout


def confirm(d):
    wt = "/tmp/seedconfirm_%d" % os.getpid()
    sh(["git", "-C", REPO, "worktree", "remove", "--force", wt])
    rc, out = sh(["git", "-C", REPO, "worktree", "add", "--detach", wt, "HEAD"])
    res = {}
    try:
        demo = os.path.join(d, "demo.rs")
        os.makedirs(os.path.join(wt, "tests"), exist_ok=True)
        shutil.copy(demo, os.path.join(wt, "tests", "demo_seed.rs"))
        env_target = os.path.join(wt, "target")
        rc, out = sh("cargo test --offline --test demo_seed 2>&1 | tail -25", cwd=wt)
        res["demo_passes_without_change"] = bool(re.search(r"test result: ok", out)) and not re.search(r"test result: FAILED", out)
        res["demo_without_tail"] = out[-600:]
        rc, out = sh(["git", "apply", os.path.join(d, "patch.diff")], cwd=wt)
        res["patch_applies"] = rc == 0
        if rc != 0:
            res["apply_log"] = out[-500:]
            return res
        rc, out = sh("timeout 600 cargo test --offline --test demo_seed 2>&1 | tail -40", cwd=wt, timeout=700)
        res["demo_fails_with_change"] = bool(re.search(r"test result: FAILED|panicked|error: test failed|timed out|Terminated|SIGKILL|signal", out)) or rc != 0 and "test result: ok" not in out
        res["demo_with_tail"] = out[-800:]
        os.remove(os.path.join(wt, "tests", "demo_seed.rs"))
        rc, out = sh("cargo test --offline 2>&1 | grep -E 'test result|FAILED|error' | head", cwd=wt)
        oks = re.findall(r"test result: ok\. (\d+) passed", out)
        res["existing_tests_pass_with_change"] = "FAILED" not in out and "error" not in out and sum(int(x) for x in oks) >= 63
        res["suite_tail"] = out[-400:]
    finally:
        sh(["git", "-C", REPO, "worktree", "remove", "--force", wt])
        shutil.rmtree(wt, ignore_errors=True)
    return res


def evaluate(d, props):
    rc, out = sh(["git", "-C", REPO, "status", "--short"])
    if out.strip():
        raise SystemExit("/repo is not clean: " + out)
    rc, out = sh(["git", "-C", REPO, "apply", os.path.join(d, "patch.diff")])
    if rc != 0:
        return {"error": "patch does not apply to /repo: " + out[-300:]}
    det = {}
    # the evidence files describe the unchanged tree: keep them (a check run against a seeded change rewrites its evidence file)
    ev_dir = os.path.join(VERIF, "evidence")
    saved = {f: open(os.path.join(ev_dir, f), "rb").read() for f in os.listdir(ev_dir) if f.endswith(".json")} if os.path.isdir(ev_dir) else {}
    try:
        for p in props:
            t0 = time.time()
            try:
                rc, out = sh(["./mp4v", "check", p, "--tier", "quick"], cwd=VERIF, timeout=1500)
            except subprocess.TimeoutExpired:
                rc, out = 124, "TIMEOUT"
            lines = [l for l in out.splitlines() if l.startswith("VIOLATION") or l.startswith("KNOWN-FINDING") or l.startswith("OK ")]
            first = None
            m = re.search(r"VIOLATION property=\S+ replay=(\S+)", out)
            if m:
                try:
                    rj = json.load(open(os.path.join(VERIF, m.group(1))))
                    first = {k: rj[k] for k in ("kind", "what", "case", "profile") if k in rj}
                except Exception:
                    pass
            det[p] = {"exit": rc, "wall_s": round(time.time() - t0, 1), "lines": lines[:6], "first_replay": first,
                      "detected": rc != 0 and any(l.startswith("VIOLATION") for l in lines),
                      "with_failing_input": any(l.startswith("VIOLATION") and "no-failing-input-found" not in l for l in lines)}
    finally:
        sh(["git", "-C", REPO, "checkout", "--", "."])
        shutil.rmtree(os.path.join(VERIF, "replays"), ignore_errors=True)
        for f, b in saved.items():
            open(os.path.join(ev_dir, f), "wb").write(b)
    return det


def main():
    d = os.path.abspath(sys.argv[1])
    meta_p = os.path.join(d, "meta.json")
    meta = json.load(open(meta_p))
    props = [meta["property"]]
    if "--checks" in sys.argv:
        props = sys.argv[sys.argv.index("--checks") + 1].split(",")
    if "--skip-confirm" not in sys.argv:
        meta["confirmed"] = confirm(d)
        json.dump(meta, open(meta_p, "w"), indent=1)
        c = meta["confirmed"]
        ok = c.get("patch_applies") and c.get("existing_tests_pass_with_change") and c.get("demo_passes_without_change") and c.get("demo_fails_with_change")
        print("confirmed:", bool(ok), {k: v for k, v in c.items() if isinstance(v, bool)})
        if not ok:
            return 2
    det = meta.get("detection", {})
    det.update(evaluate(d, props))
    meta["detection"] = det
    json.dump(meta, open(meta_p, "w"), indent=1)
    for p, r in det.items():
        if isinstance(r, dict):
            print(p, "detected" if r.get("detected") else "MISSED", "(failing input)" if r.get("with_failing_input") else "", r.get("lines", [])[:2])
    return 0


if __name__ == "__main__":
    sys.exit(main())
