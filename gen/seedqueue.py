#!/usr/bin/env python3
"""Import finished seeded changes from /tmp/seed/*.out/m* into /verif/seeded/ and confirm + evaluate them one at a time."""
import glob, json, os, shutil, subprocess, sys, time
VERIF = os.path.dirname(os.path.dirname(os.path.abspath(__file__)))
done = set()
idle = 0
while idle < 240 and not os.path.exists("/tmp/seed/STOP"):
    new = False
    for d in sorted(glob.glob("/tmp/seed/C*.out/[mnpqrstuv]*")):
        if d in done or not all(os.path.exists(os.path.join(d, f)) for f in ("patch.diff", "demo.rs", "meta.json")):
            continue
        # wait until the agent has stopped touching the directory
        if time.time() - max(os.path.getmtime(os.path.join(d, f)) for f in os.listdir(d)) < 90:
            continue
        pid = os.path.basename(os.path.dirname(d)).split(".")[0]
        name = "%s_%s" % (pid, os.path.basename(d))
        dst = os.path.join(VERIF, "seeded", name)
        done.add(d)
        if os.path.exists(os.path.join(dst, "meta.json")) and "detection" in json.load(open(os.path.join(dst, "meta.json"))):
            continue
        os.makedirs(dst, exist_ok=True)
        for f in ("patch.diff", "demo.rs", "meta.json"):
            shutil.copy(os.path.join(d, f), dst)
        try:
            m = json.load(open(os.path.join(dst, "meta.json")))
        except Exception:
            m = {"property": pid, "summary": "meta.json of the agent was not valid JSON"}
        m["property"] = pid
        json.dump(m, open(os.path.join(dst, "meta.json"), "w"), indent=1)
        print("==", name, flush=True)
        r = subprocess.run([sys.executable, os.path.join(VERIF, "gen", "seedtest.py"), dst], stdout=subprocess.PIPE, stderr=subprocess.STDOUT, text=True)
        print(r.stdout[-1500:], flush=True)
        new = True
    if not new:
        idle += 1
        time.sleep(30)
    else:
        idle = 0
