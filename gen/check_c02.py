"""C02 — muxer output is a structurally valid, self-consistent ISO-BMFF file.

proof:           Props/C02.v (table-level validity invariants of the writer model; soundness of the boolean validator);
                 Props/C02Bytes.v (C02_mux_bytes_iso_valid: the independent validator iso_check_file accepts the muxer model's COMPLETE output bytes with the history's expectation)
correspondence:  extracted Writer model vs the real Mp4Writer (tables, headers, mdat extent, bytes before moov)
oracle:          Iso/IsoFile.v `iso_check_file` (extracted; shares no code with the library) run on the REAL muxer's bytes
"""
import random

import muxcheck
import muxgen

LEVEL = "proof"
CONE = ["Props/C02.v", "Props/C02Bytes.v", "Proofs/MuxProofs.v", "Proofs/MuxInv.v", "Proofs/IsoParse1.v", "Proofs/IsoParse2.v", "Proofs/IsoParse3.v", "Proofs/IsoParse4.v",
        "Proofs/IsoMuxValid.v", "Proofs/MuxOpen.v", "Model/Writer.v", "Model/WriterMoov.v", "Iso/IsoFile.v"]


def check(rep):
    rng = random.Random(rep.seed * 7919 + 2)
    # output larger than 4 GiB, muxed for real through the harness's sparse stream: the 64-bit mdat size form must still tile the file
    import common
    import check_c13
    with common.Lock():
        common.harness_build(["run"])
    bf, nbig = check_c13.big_payload(rep)
    for i, f in enumerate(bf[:3]):
        rep.violation("big_payload_%d" % i, dict(f, kind="input"))
    rep.coverage["big_payload_histories"] = nbig
    if bf:
        return
    hs = muxgen.exhaustive_small()
    hs += [muxgen.random_history(rng, bad=0.02) for _ in range(300 if rep.tier == "quick" else 6000)]
    # parameter sets at the top of their 16-bit length range (the avcC box and every container around it must still add up), empty PPS
    for n, k in ((65535, 65535), (65534, 1), (65533, 0), (4, 65535), (4, 65534)):
        hs.append({"base": 0, "cfg": muxgen.DEFAULT_CFG, "ops": [{"add": muxgen.tc("avc", sps="67" * n, pps="68" * k)}, {"add": muxgen.tc("aac")},
                                                                  {"w": [1, 1000, 0, True, "aabb"]}, {"w": [2, 1024, 0, True, "cc"]}, {"w": [1, 1000, 0, False, ""]}]})
    muxcheck.run_property(rep, "C02", CONE, hs, [muxcheck.oracle_c02], modules=["C02", "C02Bytes"], rule=
                          "same history space as C01 (shape-exhaustive small + seeded random, debug and release); the real output is judged by the "
                          "independent parser/validator iso_check_file: top-level tiling, container sizes, per-track table totals, stss order, chunk "
                          "extents inside mdat and pairwise disjoint, header durations within one tick, version/width consistency. "
                          "Media data just below / above 4 GiB is muxed for real through a sparse stream: mdat size form and value, top-level tiling (mdat reaches moov, moov reaches the end) on the real bytes.")
