"""C02 — muxer output is a structurally valid, self-consistent ISO-BMFF file.

proof:           Props/C02.v (table-level validity invariants of the writer model; soundness of the boolean validator);
                 Props/C02Bytes.v (C02_mux_bytes_iso_valid: the independent validator iso_check_file accepts the muxer model's COMPLETE output bytes with the history's expectation)
correspondence:  extracted Writer model vs the real Mp4Writer (tables, headers, mdat extent, bytes before moov)
oracle:          Iso/IsoFile.v `iso_check_file` (extracted; shares no code with the library) run on the REAL muxer's bytes
"""
import random

import muxcheck
import muxgen

LEVEL = "proof"
CONE = ["Props/C02.v", "Props/C02Bytes.v", "Proofs/MuxProofs.v", "Proofs/MuxInv.v", "Proofs/IsoParse1.v", "Proofs/IsoParse2.v", "Proofs/IsoParse3.v", "Proofs/IsoParse4.v",
        "Proofs/IsoMuxValid.v", "Proofs/MuxOpen.v", "Model/Writer.v", "Model/WriterMoov.v", "Iso/IsoFile.v"]


def check(rep):
    rng = random.Random(rep.seed * 7919 + 2)
    # output larger than 4 GiB, muxed for real through the harness's sparse stream: the 64-bit mdat size form must still tile the file
    import common
    import check_c13
    with common.Lock():
        common.harness_build(["run"])
    bf, nbig = check_c13.big_payload(rep)
    for i, f in enumerate(bf[:3]):
        rep.violation("big_payload_%d" % i, dict(f, kind="input"))
    rep.coverage["big_payload_histories"] = nbig
    if bf:
        return
    hs = muxgen.exhaustive_small()
    hs += [muxgen.random_history(rng, bad=0.02) for _ in range(300 if rep.tier == "quick" else 6000)]
    U32 = 1 << 32
    # timescales near 2^32 with durations whose product with the movie timescale crosses 2^64 while the quotient still fits (the conversion must be done in 128 bits)
    for mts, tts, durs in ((4000000000, 4000000000, [2000000000] * 3), (U32 - 1, U32 - 1, [U32 - 1, U32 - 1]), (U32 - 1, 1 << 31, [1 << 31, 1 << 31, 5]), (1 << 31, 3, [U32 - 1, 7])):
        hs.append({"base": 0, "cfg": dict(muxgen.DEFAULT_CFG, timescale=mts), "ops": [{"add": muxgen.tc("aac", ts=tts)}] + [{"w": [1, d, 0, True, "aa"]} for d in durs]})
    # brand lists with repeated brands (adjacent, non-adjacent, equal to the major brand), and a long list
    isom, iso2, mp41 = muxgen.fourcc("isom"), muxgen.fourcc("iso2"), muxgen.fourcc("mp41")
    for brands in ([isom, iso2, isom, mp41], [isom, isom], [iso2, mp41, mp41, iso2, iso2], [isom] * 7, list(range(1, 40))):
        hs.append({"base": 0, "cfg": {"major": isom, "minor": 512, "brands": brands, "timescale": 1000}, "ops": [{"add": muxgen.tc("avc")}, {"w": [1, 40, 0, True, "aabb"]}]})
    # several tracks whose durations cross 2^32 movie ticks in different positions of the track list (the movie header follows the longest)
    for order in ((5000000, 10), (10, 5000000), (10, 5000000, 20), (5000000, 4999999)):
        ops = [{"add": muxgen.tc("ttxt", ts=1)} for _ in order]
        for ti, d in enumerate(order):
            ops.append({"w": [ti + 1, d, 0, True, "aa"]})
        hs.append({"base": 0, "cfg": dict(muxgen.DEFAULT_CFG, timescale=1000), "ops": ops})
    # parameter sets at the top of their 16-bit length range (the avcC box and every container around it must still add up), empty PPS
    for n, k in ((65535, 65535), (65534, 1), (65533, 0), (4, 65535), (4, 65534)):
        hs.append({"base": 0, "cfg": muxgen.DEFAULT_CFG, "ops": [{"add": muxgen.tc("avc", sps="67" * n, pps="68" * k)}, {"add": muxgen.tc("aac")},
                                                                  {"w": [1, 1000, 0, True, "aabb"]}, {"w": [2, 1024, 0, True, "cc"]}, {"w": [1, 1000, 0, False, ""]}]})
    muxcheck.run_property(rep, "C02", CONE, hs, [muxcheck.oracle_c02], modules=["C02", "C02Bytes"], rule=
                          "same history space as C01 (shape-exhaustive small + seeded random, debug and release); the real output is judged by the "
                          "independent parser/validator iso_check_file: top-level tiling, container sizes, per-track table totals, stss order, chunk "
                          "extents inside mdat and pairwise disjoint, header durations within one tick, version/width consistency. "
                          "Media data just below / above 4 GiB is muxed for real through a sparse stream: mdat size form and value, top-level tiling (mdat reaches moov, moov reaches the end) on the real bytes.")
