"""Muxing histories: generation, encodings for the harness / the model, and the specification oracle.

A history is {"base": int, "cfg": {...}, "ops": [op, ...]} with
  op = {"add": trackconf}  |  {"w": [track_id, duration, rendering_offset, is_sync, blob]}
  blob = hex string | {"fill": b, "len": n, "step": s}
All random choices come from one random.Random(seed)."""
import itertools
import random

import common

U32 = 1 << 32


def tables():
    return common.gen_tables()


def enum_names(name):
    return [n for _, n in tables()["enums"][name]["tryfrom"]]


def fourcc(s):
    return int.from_bytes(s.encode("latin1"), "big")


DEFAULT_CFG = {"major": fourcc("isom"), "minor": 512, "brands": [fourcc("isom"), fourcc("iso2"), fourcc("avc1"), fourcc("mp41")],
               "timescale": 1000}


def blob_bytes(b):
    if isinstance(b, str):
        return bytes.fromhex(b)
    return bytes(((b["fill"] + i * b.get("step", 0)) & 255) for i in range(b["len"]))


def blob_len(b):
    return len(b) // 2 if isinstance(b, str) else b["len"]


# ---------------------------------------------------------------- track configurations
def tc(kind, ts=1000, lang=b"und", tt=None, **kw):
    d = {"kind": kind, "ts": ts, "lang": bytes(lang).hex(), "tt": tt or {"avc": "Video", "hevc": "Video", "vp9": "Video", "aac": "Audio", "ttxt": "Subtitle"}[kind]}
    if kind == "avc":
        d.update({"w": kw.get("w", 320), "h": kw.get("h", 240), "sps": kw.get("sps", "67640028ac"), "pps": kw.get("pps", "68ee3c80")})
    elif kind in ("hevc", "vp9"):
        d.update({"w": kw.get("w", 640), "h": kw.get("h", 360)})
    elif kind == "aac":
        d.update({"bitrate": kw.get("bitrate", 128000), "profile": kw.get("profile", "AacLowComplexity"),
                  "freq_index": kw.get("freq_index", "Freq48000"), "chan_conf": kw.get("chan_conf", "Stereo")})
    return d


KINDS = ["avc", "hevc", "vp9", "aac", "ttxt"]


# ---------------------------------------------------------------- encodings
def to_harness(h, **extra):
    discr = {n: v for n, v in tables()["enums"]["AudioObjectType"]["discr"]} if "discr" in tables()["enums"]["AudioObjectType"] else None
    aot = {n: v for v, n in tables()["enums"]["AudioObjectType"]["tryfrom"]}
    sfi = {n: v for v, n in tables()["enums"]["SampleFreqIndex"]["tryfrom"]}
    chan = {n: v for v, n in tables()["enums"]["ChannelConfig"]["tryfrom"]}
    ops = []
    for op in h["ops"]:
        if "add" in op:
            a = dict(op["add"])
            if a["kind"] == "aac":
                a["profile"] = aot[a["profile"]]
                a["freq_index"] = sfi[a["freq_index"]]
                a["chan_conf"] = chan[a["chan_conf"]]
            ops.append({"add": a})
        else:
            ops.append(op)
    d = {"cmd": "mux", "base": h.get("base", 0), "cfg": h["cfg"], "ops": ops}
    d.update(extra)
    return d


def hx(n):
    return "%x" % n


def to_model(h, mode):
    c = h["cfg"]
    toks = ["mux", mode, hx(h.get("base", 0)), hx(c["major"]), hx(c["minor"]), hx(c["timescale"]),
            ",".join(hx(b) for b in c["brands"]) or "-"]
    for op in h["ops"]:
        if "add" in op:
            a = op["add"]
            toks += ["A", a["kind"], a["tt"], hx(a["ts"]), a["lang"] or "-"]
            if a["kind"] == "avc":
                toks += [hx(a["w"]), hx(a["h"]), a["sps"] or "-", a["pps"] or "-"]
            elif a["kind"] in ("hevc", "vp9"):
                toks += [hx(a["w"]), hx(a["h"])]
            elif a["kind"] == "aac":
                toks += [hx(a["bitrate"]), a["profile"], a["freq_index"], a["chan_conf"]]
        else:
            t, d, o, s, b = op["w"][:5]
            bb = b if isinstance(b, str) else "@%d:%d:%d" % (b["fill"], b["len"], b.get("step", 0))
            toks += ["W", hx(t), hx(d), str(o), "1" if s else "0", bb or "-"]
    return " ".join(toks)


# ---------------------------------------------------------------- the specification (pure list manipulation)
def conf_accepted(a):
    """the documented domain of a track configuration"""
    if a["ts"] < 1:
        return False
    if a["kind"] == "avc":
        if not (4 <= len(a["sps"]) // 2 <= 65535) or len(a["pps"]) // 2 > 65535:
            return False
    return True


def spec(h):
    """accepted history: list of tracks, each {"conf":.., "samples":[(dur, cts, sync, bytes)]}; and per-op status"""
    tracks = []
    status = []
    for op in h["ops"]:
        if "add" in op:
            if conf_accepted(op["add"]):
                tracks.append({"conf": op["add"], "samples": []})
                status.append("ok")
            else:
                status.append("data")
        else:
            t, d, o, s, b = op["w"][:5]
            if 1 <= t <= len(tracks) and blob_len(b) < U32:
                tracks[t - 1]["samples"].append((d, o, bool(s), b))
                status.append("ok")
            else:
                status.append("data")
    return tracks, status


def filtered(h):
    """the history with the rejected calls removed"""
    _, st = spec(h)
    return {"base": h.get("base", 0), "cfg": h["cfg"], "ops": [op for op, s in zip(h["ops"], st) if s == "ok"]}


# ---------------------------------------------------------------- generators
def sample_pool(ts):
    sizes = ["", "aa", "bbcc", "0102030405", {"fill": 7, "len": 300, "step": 3}]
    durs = [0, 1, ts // 2, ts, ts + 1, U32 - 1]
    offs = [0, 5, -5, 2 ** 31 - 1, -2 ** 31]
    return sizes, durs, offs


def exhaustive_small(limit=None):
    """Shape-exhaustive small histories: every kind; 0..4 samples from a small alphabet chosen to hit the
    fixed->variable size switch, zero sizes, lazy ctts/stss creation, chunk flushing on duration, and rejected calls."""
    out = []
    # one track, every kind, sample sequences over a compact alphabet
    alpha = [(0, 0, True, ""), (500, 0, True, "aa"), (500, 0, False, "aa"), (1000, 7, True, "bbcc"),
             (1001, -3, False, "aa"), (U32 - 1, 0, False, "0102030405"), (250, 0, False, "")]
    for kind in KINDS:
        for n in range(0, 4):
            for seq in itertools.product(range(len(alpha)), repeat=n):
                if kind != "avc" and n == 3 and (seq[0] + seq[1] + seq[2]) % 3:
                    continue  # thin out the non-AVC kinds: the sample machinery is kind independent
                ops = [{"add": tc(kind)}] + [{"w": [1] + list(alpha[i])} for i in seq]
                out.append({"base": 0, "cfg": DEFAULT_CFG, "ops": ops})
    # two tracks interleaved, rejected calls at every position
    a2 = [(1, (400, 0, True, "aa")), (2, (700, 2, False, "bbcc")), (1, (600, 0, False, "")), (2, (300, 0, True, "cc")),
          (0, (1, 0, True, "dd")), (3, (1, 0, True, "ee"))]
    for n in range(1, 5):
        for seq in itertools.product(range(len(a2)), repeat=n):
            if n == 4 and sum(seq) % 5:
                continue
            ops = [{"add": tc("avc", ts=1000)}, {"add": tc("aac", ts=48000)}] + [{"w": [a2[i][0]] + list(a2[i][1])} for i in seq]
            out.append({"base": 0, "cfg": DEFAULT_CFG, "ops": ops})
    # timescales and movie timescales at the extremes
    for mts in (1, 1000, 65536, U32 - 1):
        for tts in (1, 999, 90000, U32 - 1):
            cfg = dict(DEFAULT_CFG, timescale=mts)
            ops = [{"add": tc("hevc", ts=tts)}] + [{"w": [1, d, 0, i == 0, "ab"]} for i, d in enumerate((999, 999, 1, tts % 5000))]
            out.append({"base": 0, "cfg": cfg, "ops": ops})
    # write before any track, add after writes, no tracks at all
    out.append({"base": 0, "cfg": DEFAULT_CFG, "ops": []})
    out.append({"base": 0, "cfg": DEFAULT_CFG, "ops": [{"w": [1, 1, 0, True, "aa"]}]})
    out.append({"base": 0, "cfg": DEFAULT_CFG, "ops": [{"add": tc("ttxt")}, {"w": [1, 1, 0, True, "aa"]}, {"add": tc("vp9")}, {"w": [2, 1, 0, True, "bb"]}, {"w": [1, 1, 0, True, "cc"]}]})
    # add_track calls the muxer rejects (zero timescale, SPS shorter than 4 bytes) before, between and after accepted ones: the accepted tracks are 1, 2, ... regardless
    bad0, bad1 = tc("vp9", ts=0), tc("avc", ts=1000, sps="6742", pps="68ee3c80")
    for pattern in (("B", "G"), ("G", "B", "G"), ("B", "B", "G", "G"), ("G", "G", "B"), ("B", "G", "b", "G", "B")):
        ops, good = [], 0
        for j, c in enumerate(pattern):
            if c == "G":
                good += 1
                ops.append({"add": tc(("avc", "aac", "ttxt")[good % 3], ts=(1000, 48000, 600)[good % 3])})
            else:
                ops.append({"add": bad0 if c == "B" else bad1})
            if good:
                ops.append({"w": [good, 100 + j, 0, True, "a%d" % j]})
        for t in range(1, good + 1):
            ops.append({"w": [t, 7, 0, False, "ff0%d" % t]})
        out.append({"base": 0, "cfg": DEFAULT_CFG, "ops": ops})
    # a non-zero start position
    out.append({"base": 1000, "cfg": DEFAULT_CFG, "ops": [{"add": tc("avc")}, {"w": [1, 1000, 0, True, "aabb"]}, {"w": [1, 1000, 0, False, "cc"]}]})
    if limit:
        out = out[:limit]
    return out


def structured_param_sets():
    """AVC parameter sets with byte patterns a 'helpful' muxer might interpret: Annex B start codes (4- and 3-byte) at the front, in the middle and
    as the whole value, emulation-prevention sequences, leading/trailing zeros, all-zero and all-ones values (hex strings, each at least 4 bytes so that
    add_track accepts them as an SPS)"""
    raw = [b"\0\0\0\1", b"\0\0\1\x67", b"\0\0\0\1\x67\x42\0\x1e", b"\0\0\1\x67\x64\0\x28\xac", b"\x67\x42\0\0\0\1\x1e\x99", b"\x67\0\0\3\0\x1e",
           b"\0\0\0\0", b"\0\0\0\0\0\1\x67\x42", b"\xff\xff\xff\xff", b"\x67\x42\0\x1e\0\0", b"\0\0\1\0\0\1", b"\x68\0\0\1"]
    return [r.hex() for r in raw]


def random_history(rng, max_tracks=4, max_samples=120, bad=0.05):
    ntr = rng.randint(0, max_tracks)
    mts = rng.choice([1, 600, 1000, 90000, 65536, U32 - 1, rng.randint(1, U32 - 1)])
    cfg = {"major": rng.choice([fourcc("isom"), fourcc("mp42"), rng.randrange(U32)]), "minor": rng.choice([0, 512, U32 - 1]),
           "brands": [rng.choice([fourcc("isom"), fourcc("avc1"), rng.randrange(U32)]) for _ in range(rng.randint(0, 5))], "timescale": mts}
    ops = []
    confs = []
    for _ in range(ntr):
        kind = rng.choice(KINDS)
        ts = rng.choice([1, 25, 1000, 44100, 48000, 90000, U32 - 1, rng.randint(1, U32 - 1)])
        lang = bytes(rng.choice(b"abcdefghijklmnopqrstuvwxyz") for _ in range(3))
        kw = {}
        if kind == "avc":
            n = rng.choice([4, 5, 9, 30, 255])
            kw = {"w": rng.choice([0, 1, 320, 1920, 65535]), "h": rng.choice([0, 1, 240, 1080, 65535]),
                  "sps": bytes(rng.randrange(256) for _ in range(n)).hex(), "pps": bytes(rng.randrange(256) for _ in range(rng.choice([0, 1, 4, 40]))).hex()}
        elif kind in ("hevc", "vp9"):
            kw = {"w": rng.choice([0, 1, 640, 65535]), "h": rng.choice([0, 1, 360, 65535])}
        elif kind == "aac":
            kw = {"bitrate": rng.choice([0, 64000, 128000, U32 - 1]), "profile": rng.choice(enum_names("AudioObjectType")),
                  "freq_index": rng.choice(enum_names("SampleFreqIndex")), "chan_conf": rng.choice(enum_names("ChannelConfig"))}
        confs.append(tc(kind, ts=ts, lang=lang, **kw))
    def rejected_conf():
        # configurations add_track refuses: zero timescale (any kind), an AVC SPS shorter than 4 bytes; the muxer's state must be as if the call never happened
        k = rng.choice(["ts0", "ts0", "sps"])
        if k == "sps":
            return tc("avc", ts=rng.choice([1, 1000]), sps=bytes(rng.randrange(256) for _ in range(rng.choice([0, 1, 3]))).hex(), pps="68ee3c80")
        return tc(rng.choice(KINDS), ts=0)
    # adds mostly first, sometimes late; one history in four has add_track calls the muxer rejects, before / between / after the accepted ones
    with_rejected = rng.random() < 0.25
    late = []
    for c in confs:
        if with_rejected and rng.random() < 0.5:
            ops.append({"add": rejected_conf()})
        if rng.random() < 0.8:
            ops.append({"add": c})
        else:
            late.append(c)
    if with_rejected and rng.random() < 0.5:
        ops.append({"add": rejected_conf()})
    nsamp = rng.randint(0, max_samples)
    style = rng.choice(["mixed", "fixed", "zeros", "allsync", "nosync", "cts"])
    live = sum(1 for o in ops if "add" in o and conf_accepted(o["add"]))
    for i in range(nsamp):
        if with_rejected and rng.random() < 0.03:
            ops.append({"add": rejected_conf()})
        if late and rng.random() < 0.1:
            ops.append({"add": late.pop()})
            live += 1
        if rng.random() < bad:
            tid = rng.choice([0, live + 1, live + 7, U32 - 1])
        else:
            tid = rng.randint(1, max(1, live))
        ts = 1000
        adds = [o["add"] for o in ops if "add" in o and conf_accepted(o["add"])]
        if 1 <= tid <= len(adds):
            ts = adds[tid - 1]["ts"]
        dur = rng.choice([0, 1, max(1, ts // 30), max(1, ts // 2), ts, min(ts + 1, U32 - 1), rng.randrange(U32), U32 - 1]) if rng.random() < 0.5 else max(1, ts // 25)
        if style == "fixed":
            blob = "aabbccdd"
        elif style == "zeros":
            blob = rng.choice(["", "", "aa"])
        else:
            ln = rng.choice([0, 1, 2, 3, 8, 100, 1000]) if rng.random() < 0.7 else rng.randint(0, 3000)
            blob = {"fill": rng.randrange(256), "len": ln, "step": rng.randrange(1, 255)}
        sync = {"allsync": True, "nosync": False}.get(style, rng.random() < 0.3)
        cts = rng.choice([0, 0, 0, 40, -40, 2 ** 31 - 1, -2 ** 31]) if style in ("cts", "mixed") else 0
        ops.append({"w": [tid, dur, cts, sync, blob]})
    for c in late:
        ops.append({"add": c})
    return {"base": rng.choice([0, 0, 0, 1, 4096]), "cfg": cfg, "ops": ops}
