"""C18 — metadata accessors return the tags the file encodes.

proof:           Props/C18.v (metadata_sound: decoding the reference rendering of a tag set with the model decoder gives exactly the tags; absence cases)
correspondence:  the extracted reader model vs the real reader (metadata accessors included) on every generated file
oracle:          Mp4Reader::metadata().title()/year()/poster()/summary() on files rendered by the reference renderer from an abstract tag set, compared with that tag set
"""
import copy
import itertools
import random

import common
import isogen
import readcheck

LEVEL = "proof"
CONE = ["Props/C18.v", "Proofs/MetaProofs.v", "Iso/IsoMeta.v"]


def movie_with(udta_box):
    trs = [{"id": 1, "kind": "avc", "ts": 1000, "sizes": [3], "chunks": [1], "deltas": [40], "cts": None, "sync": None, "co64": False}]
    r, _, _ = isogen.build_movie(trs, "moov_first", udta=udta_box)
    return bytes(r.data)


def noise_item(rng):
    code = rng.choice([b"\xa9too", b"\xa9ART", b"trkn", b"----", b"\xa9cmt", b"aART"])
    if rng.random() < 0.15:
        return isogen.Box(code, [])       # a header-only item (8 bytes, no data box)
    return isogen.ilst_item(code, rng.choice([0, 1, 21]), bytes(rng.randrange(256) for _ in range(rng.choice([0, 3, 40]))))


def all_boxes(b):
    out = [b]
    for it in b.items:
        if isinstance(it, isogen.Box):
            out += all_boxes(it)
    return out


def enlarge(b, rng, p):
    """64-bit size header on each box below (and including) b with probability p; returns a label of the boxes chosen"""
    lab = []
    for x in all_boxes(b):
        if rng.random() < p:
            x.large = True
            lab.append(x.typ.decode("latin1").strip())
    return "+".join(lab)[:40]


def cases(rng, tier):
    out = []
    # 65535 / 65536 / 131072: payload lengths at the block sizes a chunked reader would use (an exact multiple of the block is the case that goes wrong)
    lens = [0, 1, 255, 65536] + ([70000, 65535, 131072] if tier != "quick" else [5000])
    for subset in range(16):
        for year_bin, fullbox, handler, hdlr_first in itertools.product((False, True), (True, False), ("mdir", "mdta"), (True, False)):
            if not fullbox and not hdlr_first:
                continue   # a meta box without the version/flags word is only recognisable when hdlr comes first (QuickTime layout)
            if tier == "quick" and (subset * 7 + year_bin + 2 * fullbox + 4 * hdlr_first) % 3 and handler == "mdta":
                continue
            n = rng.choice(lens)
            tags = {}
            items = []
            if subset & 1:
                t = ("T" + "é" * (n // 2)).encode()[:max(n, 0)] if n else b""
                t = t.decode("utf-8", "ignore").encode()
                tags["title"] = t
                items.append(isogen.ilst_item(isogen.TITLE, 1, t))
            if subset & 2:
                y = rng.choice([0, 1, 1999, 2024, 4294967295])
                tags["year"] = y
                items.append(isogen.ilst_item(isogen.YEAR, 0, y.to_bytes(4, "big")) if year_bin else isogen.ilst_item(isogen.YEAR, 1, str(y).encode()))
            if subset & 4:
                p = bytes(rng.randrange(256) for _ in range(rng.choice(lens)))
                tags["poster"] = p
                items.append(isogen.ilst_item(isogen.POSTER, rng.choice([13, 13, 0]), p))
            if subset & 8:
                s_ = ("S" * rng.choice(lens)).encode()
                tags["summary"] = s_
                items.append(isogen.ilst_item(isogen.SUMMARY, 1, s_))
            rng.shuffle(items)
            for _ in range(rng.choice([0, 0, 1, 3])):
                items.insert(rng.randint(0, len(items)), noise_item(rng))
            kids = [isogen.ilst(items)]
            if rng.random() < 0.3:
                kids.insert(rng.randint(0, 1), isogen.Box("free", [isogen.Raw(b"zz")]))
            u = isogen.udta([isogen.meta(kids, fullbox, handler, hdlr_first)])
            if rng.random() < 0.2:
                u.items.insert(0, isogen.Box("Xtra", [isogen.Raw(b"abc")]))
            exp = tags if handler == "mdir" else {}
            big = ""
            if rng.random() < 0.45:
                # 64-bit size headers on a random subset of the metadata boxes (udta, meta, hdlr, ilst, items, data): same tags
                big = "_L" + enlarge(u, rng, rng.choice([0.3, 0.6, 1.0]))
            out.append(("s%x_y%d_f%d_%s_h%d%s" % (subset, year_bin, fullbox, handler, hdlr_first, big), movie_with(u), exp))
    # every single metadata box in the 64-bit header form, one at a time, on a file with all four tags
    def all_four():
        return isogen.udta([isogen.meta([isogen.ilst([isogen.ilst_item(b"\xa9too", 1, b"enc"), isogen.ilst_item(isogen.TITLE, 1, "Titre \u00e9".encode()),
                                                      isogen.ilst_item(isogen.YEAR, 0, (1999).to_bytes(4, "big")), isogen.ilst_item(isogen.POSTER, 13, b"\xff\xd8\xff\xe0" * 9),
                                                      isogen.ilst_item(isogen.SUMMARY, 1, b"summary")])], True, "mdir", hf)])
    for hf in (True, False):
        nb = len(all_boxes(all_four()))
        for j in range(nb):
            u = all_four()
            all_boxes(u)[j].large = True
            out.append(("large_one_h%d_%d" % (hf, j), movie_with(u), {"title": "Titre \u00e9".encode(), "year": 1999, "poster": b"\xff\xd8\xff\xe0" * 9, "summary": b"summary"}))
    # the year as text: the number the decimal digits denote (an optional '+'), when it fits 32 bits; anything else (spaces, a date, a minus sign,
    # more than 2^32-1) is not a year the accessor can return
    import re as _re
    for i, ytxt in enumerate((b"", b"+1999", b"02024", b" 2024", b"2024 ", b"4294967296", b"2024-05-17", b"-0", b"+", b"4294967295", b"4294969304", b"99999999999999999999",
                              b"0", b"+0", b"20240517123000")):
        yv = int(ytxt) if _re.fullmatch(rb"\+?[0-9]+", ytxt) and int(ytxt) < (1 << 32) else None
        out.append(("year_text_%d" % i, movie_with(isogen.udta([isogen.meta([isogen.ilst([isogen.ilst_item(isogen.YEAR, 1, ytxt)])])])), {"year": yv} if yv is not None else {}))
    for i, (dt, pl) in enumerate(((0, b"\x07\xe8"), (0, b"\0\0\x07\xe8\0"), (21, b"\0\0\x07\xe8"), (13, b"\0\0\x07\xe8"), (0, b""), (0, b"\x07"), (0, b"\0\x07\xe8"),
                                 (21, b""), (13, b""), (0, b"\xff\xff\xff\xff"), (0, b"\0" * 8))):
        out.append(("year_bin_%d" % i, movie_with(isogen.udta([isogen.meta([isogen.ilst([isogen.ilst_item(isogen.YEAR, dt, pl)])])])), None))
    # text values with NUL characters (U+0000 is a legal character of the encoded text: it must come back), leading/trailing spaces, BOM
    for i, txt in enumerate((b"Big Buck Bunny\0", b"\0", b"\0\0\0", b"a\0b", b"\0lead", b" trail ", "\ufeffbom".encode(), b"2008\0")):
        u = isogen.udta([isogen.meta([isogen.ilst([isogen.ilst_item(isogen.TITLE, 1, txt), isogen.ilst_item(isogen.SUMMARY, 1, txt), isogen.ilst_item(isogen.YEAR, 1, txt)])])])
        try:
            yr = int(txt.decode()) if txt.decode().isdigit() and txt.decode().isascii() else None
        except Exception:
            yr = None
        exp = {"title": txt, "summary": txt}
        if yr is not None:
            exp["year"] = yr
        out.append(("text_nul_%d" % i, movie_with(u), exp if yr is not None else None))
        out.append(("text_nul_ts_%d" % i, movie_with(isogen.udta([isogen.meta([isogen.ilst([isogen.ilst_item(isogen.TITLE, 1, txt), isogen.ilst_item(isogen.SUMMARY, 1, txt)])])])), {"title": txt, "summary": txt}))
    # items whose data box is NOT the first child (a 'name' / 'mean' / free box in front of it, as iTunes writes for some items), or is followed by one
    for i, (before, after) in enumerate((([isogen.Box("name", [isogen.Raw(b"\0\0\0\0title")])], []), ([isogen.Box("free", [])], []), ([isogen.Box("itif", [isogen.Raw(b"\0" * 4)])], []),
                                         ([], [isogen.Box("name", [isogen.Raw(b"\0\0\0\0x")])]), ([isogen.Box("mean", [isogen.Raw(b"\0\0\0\0com.apple")]), isogen.Box("name", [isogen.Raw(b"\0\0\0\0n")])], []))):
        def it(code, dt, pl):
            return isogen.Box(code, list(copy.deepcopy(before)) + [isogen.data_box(dt, pl)] + list(copy.deepcopy(after)))
        u = isogen.udta([isogen.meta([isogen.ilst([it(isogen.TITLE, 1, b"T"), it(isogen.YEAR, 0, (2011).to_bytes(4, "big")), it(isogen.POSTER, 13, b"\xff\xd8"), it(isogen.SUMMARY, 1, b"S")])])])
        out.append(("item_children_%d" % i, movie_with(u), {"title": b"T", "year": 2011, "poster": b"\xff\xd8", "summary": b"S"}))
    # a repeated item AFTER all four kinds have occurred, and unrelated items in between: the LAST occurrence wins wherever it stands
    def itx(code, dt, pl):
        return isogen.ilst_item(code, dt, pl)
    four = [itx(isogen.TITLE, 1, b"old"), itx(isogen.YEAR, 1, b"1999"), itx(isogen.POSTER, 13, b"\x01"), itx(isogen.SUMMARY, 1, b"s-old")]
    for i, extra in enumerate(([itx(isogen.TITLE, 1, b"new")], [itx(isogen.YEAR, 0, (2008).to_bytes(4, "big"))], [itx(isogen.POSTER, 13, b"\x02\x03")], [itx(isogen.SUMMARY, 1, b"s-new")],
                               [itx(b"\xa9too", 1, b"x"), itx(isogen.TITLE, 1, b"new"), itx(b"\xa9ART", 1, b"y"), itx(isogen.SUMMARY, 1, b"s-new")])):
        exp = {"title": b"old", "year": 1999, "poster": b"\x01", "summary": b"s-old"}
        for e in extra:
            if e.typ == isogen.TITLE:
                exp["title"] = b"new"
            elif e.typ == isogen.YEAR:
                exp["year"] = 2008
            elif e.typ == isogen.POSTER:
                exp["poster"] = b"\x02\x03"
            elif e.typ == isogen.SUMMARY:
                exp["summary"] = b"s-new"
        out.append(("dup_after_four_%d" % i, movie_with(isogen.udta([isogen.meta([isogen.ilst(copy.deepcopy(four) + extra)])])), exp))
    # localized values: a non-zero locale indicator (country / language) in the data box says nothing about the payload
    for i, loc in enumerate((0x000015c7, 0x00010000, 0xffffffff, 0x00000001)):
        items = [isogen.ilst_item(isogen.TITLE, 1, b"Titel", locale=loc), isogen.ilst_item(isogen.YEAR, 1 if i % 2 else 0, b"2015" if i % 2 else (2015).to_bytes(4, "big"), locale=loc),
                 isogen.ilst_item(isogen.POSTER, 13, b"\xff\xd8\xff", locale=loc), isogen.ilst_item(isogen.SUMMARY, 1, b"Zusammenfassung", locale=loc)]
        out.append(("locale_%d" % i, movie_with(isogen.udta([isogen.meta([isogen.ilst(items)])])), {"title": b"Titel", "year": 2015, "poster": b"\xff\xd8\xff", "summary": b"Zusammenfassung"}))
    # header-only unknown items (8 bytes) in front of, between and behind the known ones
    for i, pos in enumerate((0, 1, 2, 4)):
        items = [itx(isogen.TITLE, 1, b"T8"), itx(isogen.YEAR, 1, b"2012"), itx(isogen.POSTER, 13, b"\xff\xd8"), itx(isogen.SUMMARY, 1, b"S8")]
        items.insert(pos, isogen.Box(b"\xa9too", []))
        if i % 2:
            items.insert(pos, isogen.Box(b"zzzz", []))
        out.append(("empty_unknown_%d" % i, movie_with(isogen.udta([isogen.meta([isogen.ilst(items)], fullbox=(i != 2))])), {"title": b"T8", "year": 2012, "poster": b"\xff\xd8", "summary": b"S8"}))
    out.append(("dup_title", movie_with(isogen.udta([isogen.meta([isogen.ilst([isogen.ilst_item(isogen.TITLE, 1, b"first"), isogen.ilst_item(isogen.TITLE, 1, b"second")])])])), None))
    out.append(("no_udta", movie_with(None), {}))
    out.append(("udta_no_meta", movie_with(isogen.udta([isogen.Box("free", [])])), {}))
    out.append(("meta_no_ilst", movie_with(isogen.udta([isogen.meta([])])), {}))
    out.append(("empty_ilst", movie_with(isogen.udta([isogen.meta([isogen.ilst([])])])), {}))
    return out


def check(rep):
    proof_ok, details = common.proof_layer(rep, "C18", CONE, extra_targets=["theories/Extract/Extract.vo"])
    with common.Lock():
        hb_ok, hb_log = common.harness_build(["run"])
        ob_ok, ob_log = common.ocaml_build()
    if not ob_ok or not hb_ok:
        rep.violation("build", {"kind": "correspondence", "what": "harness or extracted model does not build", "log": (hb_log + ob_log)[-3000:]}, no_input=True)
        return
    rng = random.Random(rep.seed * 7919 + 18)
    cs = cases(rng, rep.tier)
    fails, ties = [], []
    stats = {"files": len(cs), "with_tags": sum(1 for c in cs if c[2]), "edge_forms": sum(1 for c in cs if c[2] is None), "model_skipped": 0}
    for profile in ("debug", "release"):
        res = readcheck.run_both([{"data": d} for _, d, _ in cs], profile)
        for (label, data, exp), (impl, model) in zip(cs, res):
            if impl.get("open") != "ok" and exp is not None:
                fails.append(("open_%d" % len(fails), {"kind": "input", "what": "reference-encoded movie does not open (%s)" % impl.get("open"), "case": label, "file": data.hex()[:20000]}))
                continue
            if exp is None:
                # edge forms (year text with sign / spaces / overflow, odd binary lengths, duplicates): the model is the reference
                t = readcheck.correspondence(impl, model)
                if t and t != "skipped":
                    ties.append(("model_vs_impl_%s_%d" % (profile, len(ties)), dict(t, kind="correspondence", case=label, profile=profile, file=data.hex()[:20000])))
                continue
            want = {"title": exp["title"].hex() if "title" in exp else None, "year": exp.get("year"), "poster": exp["poster"].hex() if "poster" in exp else None,
                    "summary": exp["summary"].hex() if "summary" in exp else None}
            if impl.get("meta") != want:
                k = next(k for k in want if (impl.get("meta") or {}).get(k) != want[k]) if isinstance(impl.get("meta"), dict) else "all"
                got = (impl.get("meta") or {}).get(k) if isinstance(impl.get("meta"), dict) else impl.get("meta")
                fails.append(("tags_%s_%d" % (profile, len(fails)), {"kind": "input", "what": "metadata accessor %s returns %s, the file encodes %s" % (k, str(got)[:80], str(want.get(k))[:80]),
                                                                     "case": label, "profile": profile, "file": data.hex()[:20000]}))
            t = readcheck.correspondence(impl, model)
            if t == "skipped":
                stats["model_skipped"] += 1
            elif t:
                ties.append(("model_vs_impl_%s_%d" % (profile, len(ties)), dict(t, kind="correspondence", case=label, profile=profile, file=data.hex()[:20000])))
    # a stream error while the header is read: the reader may report it, but may never "succeed" with the tags missing
    # (an accessor that answers None / a different value for a tag the file encodes)
    ff = movie_with(isogen.udta([isogen.meta([isogen.ilst([isogen.ilst_item(isogen.TITLE, 1, b"Faulty medium"), isogen.ilst_item(isogen.YEAR, 1, b"2021"),
                                                           isogen.ilst_item(isogen.POSTER, 13, b"\xff\xd8jpeg"), isogen.ilst_item(isogen.SUMMARY, 1, b"about")])])]))
    (fb, _), = readcheck.run_both([{"data": ff}], "debug", want_model=False, revisit=False)
    fwant = fb.get("meta")
    fres = readcheck.run_both([{"data": ff, "fail": k} for k in range(fb.get("ops_open", 0))], "debug", want_model=False, revisit=False)
    stats["fault_points"] = len(fres)
    for k, (fi, _) in enumerate(fres):
        if fi.get("fired") and fi.get("open") == "ok" and fi.get("meta") != fwant:
            fails.append(("fault_swallowed_%d" % k, {"kind": "input", "what": "with the %d-th stream call of read_header failing the file still opens, and the accessors return %s instead of %s"
                                                     % (k, str(fi.get("meta"))[:120], str(fwant)[:120]), "fault_index": k, "file": ff.hex()}))
            break
    # known finding D93: a well-known data type outside the library's 4-entry DataType table (e.g. 14 = PNG cover art) makes the whole file unreadable
    png = movie_with(isogen.udta([isogen.meta([isogen.ilst([isogen.ilst_item(isogen.TITLE, 1, b"T"), isogen.ilst_item(isogen.POSTER, 14, b"\x89PNG")])])]))
    (ip, _), = readcheck.run_both([{"data": png}], "debug", want_model=False)
    pmeta = ip.get("meta") if isinstance(ip.get("meta"), dict) else {}
    if ip.get("open") == "ok" and pmeta.get("title") != b"T".hex():
        # NOT the known finding: the file opens, but the title item next to the PNG cover is not returned
        fails.append(("png_neighbour", {"kind": "input", "what": "a file with a title and a PNG cover opens but title() returns %s, the file encodes 'T'" % pmeta.get("title"), "file": png.hex()}))
    elif ip.get("open") != "ok" or pmeta.get("poster") != b"\x89PNG".hex():
        what = "a PNG poster (data type 14) gives open=%s, poster=%s" % (ip.get("open"), (ip.get("meta") or {}).get("poster") if isinstance(ip.get("meta"), dict) else None)
        if any(f["id"] == "D93" for f in common.known_findings() if f["property"] == "C18" and f["status"] == "known"):
            rep.known("D93", what)
        else:
            fails.append(("png_poster", {"kind": "input", "what": what, "file": png.hex()}))
    rep.coverage.update({"evaluations": 2 * len(cs), "distinct_nontrivial": stats["with_tags"],
                         "rule": "all 16 subsets of {title, year, poster, summary} x year as decimal text / 4-byte binary x meta with / without the version+flags word x handler mdir / other x "
                                 "hdlr before / after ilst (thinned for non-mdir in quick), payload lengths {0, 1, 255, 5000|70000}, shuffled item order, 0-3 unknown items and free boxes "
                                 "interleaved, unknown boxes in udta; plus no udta / udta without meta / meta without ilst / empty ilst; non-trivial = files that carry at least one tag",
                         "input_distribution": stats})
    rep.coverage["samples"] = [{"case": cs[5][0], "expected": {k: (v if isinstance(v, int) else v.hex()[:40]) for k, v in (cs[5][2] or {}).items()}}]
    rep.assumptions = ["the expected values are the abstract tag set the file was rendered from", "harness/run is the compiled /repo library"]
    for name, payload in fails[:5]:
        rep.violation(name, payload)
    if fails:
        return
    if not proof_ok:
        rep.violation("proof_obligation", {"kind": "obligation", "what": "Props/C18 no longer checks", "details": details, "searched": "%d files: all tags as encoded" % len(cs)}, no_input=True)
        return
    for name, payload in ties[:5]:
        payload["searched"] = "%d files: all tags as encoded" % len(cs)
        rep.violation(name, payload, no_input=True)
