"""Parser for Rust's one-line derived `{:?}` output into the generic value trees of Model/Tree.v.

Tree (python): ("num", int) | ("bool", b) | ("str", bytes) | ("fourcc", code) | ("list", [..]) | ("none",) | ("some", t)
             | ("enum", name) | ("rec", name, [(field, t)]) | ("tuple", [..]) | ("map", [(k, v)])"""
import re

FOURCC = re.compile(r"(.{0,4}?) / 0x([0-9A-F]{8})", re.S)


class P:
    def __init__(self, s):
        self.s, self.i = s, 0

    def ws(self):
        while self.i < len(self.s) and self.s[self.i] == " ":
            self.i += 1

    def peek(self, k=1):
        return self.s[self.i:self.i + k]

    def eat(self, t):
        self.ws()
        if not self.s.startswith(t, self.i):
            raise ValueError("expected %r at %d: %r" % (t, self.i, self.s[self.i:self.i + 30]))
        self.i += len(t)

    def string(self):
        # at the opening quote
        assert self.s[self.i] == '"'
        self.i += 1
        out = []
        while True:
            c = self.s[self.i]
            if c == '"':
                self.i += 1
                break
            if c == "\\":
                n = self.s[self.i + 1]
                if n == "u":
                    j = self.s.index("}", self.i)
                    out.append(chr(int(self.s[self.i + 3:j], 16)))
                    self.i = j + 1
                    continue
                if n == "x":
                    out.append(chr(int(self.s[self.i + 2:self.i + 4], 16)))
                    self.i += 4
                    continue
                out.append({"n": "\n", "r": "\r", "t": "\t", "0": "\0", "\\": "\\", '"': '"', "'": "'"}[n])
                self.i += 2
                continue
            out.append(c)
            self.i += 1
        return "".join(out)

    def seq(self, close):
        items = []
        self.ws()
        if self.peek() == close:
            self.i += 1
            return items
        while True:
            items.append(self.value())
            self.ws()
            if self.peek() == ",":
                self.i += 1
                continue
            self.eat(close)
            return items

    def value(self):
        # a FourCC whose text STARTS WITH A SPACE (or is all spaces): `field:  "ak / 0x2022616B` — the separator space is followed by the text itself.
        # Recognised before white space is skipped, by the same test as below (the text is the lossy rendering of the code's four bytes).
        for start in (self.i, self.i + 1):
            m0 = FOURCC.match(self.s, start)
            if m0 and (m0.end() == len(self.s) or self.s[m0.end()] in ",)}] "):
                code0 = int(m0.group(2), 16)
                if code0.to_bytes(4, "big").decode("utf-8", "replace") == m0.group(1) and (start == self.i or self.s[self.i] == " "):
                    self.i = m0.end()
                    return ("fourcc", code0)
        self.ws()
        m = FOURCC.match(self.s, self.i)
        if m and (m.end() == len(self.s) or self.s[m.end()] in ",)}] "):
            # the text in front of " / 0x" is the lossy UTF-8 rendering of the four bytes of the code: when it is, this IS a FourCC,
            # whatever characters (quotes, brackets) it starts with
            code = int(m.group(2), 16)
            if code.to_bytes(4, "big").decode("utf-8", "replace") == m.group(1):
                self.i = m.end()
                return ("fourcc", code)
            if self.peek() in '[({"':
                # ambiguous: the text of a FourCC may itself start with a bracket; prefer the structural reading when it parses
                save = self.i
                try:
                    return self.value2()
                except (ValueError, KeyError, IndexError, AttributeError):
                    self.i = save
            self.i = m.end()
            return ("fourcc", int(m.group(2), 16))
        return self.value2()

    def value2(self):
        c = self.peek()
        if c == '"':
            return ("str", self.string().encode("utf-8"))
        if c == "[":
            self.i += 1
            return ("list", self.seq("]"))
        if c == "(":
            self.i += 1
            save = self.i
            try:
                return ("tuple", self.seq(")"))
            except (ValueError, KeyError, IndexError):
                # (BoxType, Vec<u8>) in MetaBox::Unknown: the box type prints as four raw characters
                self.i = save
                name = self.s[self.i:self.i + 4]
                self.i += 4
                self.eat(",")
                rest = self.seq(")")
                return ("tuple", [("enum", name)] + rest)
        if c == "{":
            self.i += 1
            ents = []
            self.ws()
            if self.peek() == "}":
                self.i += 1
                return ("map", ents)
            while True:
                k = self.value()
                self.eat(":")
                v = self.value()
                ents.append((k, v))
                self.ws()
                if self.peek() == ",":
                    self.i += 1
                    continue
                self.eat("}")
                return ("map", ents)
        m = re.compile(r"-?\d+").match(self.s, self.i)
        if m:
            self.i = m.end()
            return ("num", int(m.group(0)))
        m = re.compile(r"[A-Za-z_][A-Za-z0-9_]*").match(self.s, self.i)
        if not m:
            raise ValueError("unexpected %r at %d" % (self.s[self.i:self.i + 20], self.i))
        name = m.group(0)
        self.i = m.end()
        if name == "true":
            return ("bool", True)
        if name == "false":
            return ("bool", False)
        if name == "None":
            return ("none",)
        if self.peek() == "(":
            self.i += 1
            items = self.seq(")")
            if name == "Some":
                return ("some", items[0])
            return ("rec", name, [(str(k), v) for k, v in enumerate(items)])
        if self.peek(2) == " {":
            self.i += 2
            fields = []
            self.ws()
            if self.peek() == "}":
                self.i += 1
                return ("rec", name, fields)
            while True:
                self.ws()
                fm = re.compile(r"[A-Za-z_][A-Za-z0-9_]*").match(self.s, self.i)
                fname = fm.group(0)
                self.i = fm.end()
                self.eat(":")
                fields.append((fname, self.value()))
                self.ws()
                if self.peek() == ",":
                    self.i += 1
                    continue
                self.eat("}")
                return ("rec", name, fields)
        return ("enum", name)


def parse(s):
    p = P(s)
    v = p.value()
    p.ws()
    if p.i != len(s):
        raise ValueError("trailing input at %d: %r" % (p.i, s[p.i:p.i + 40]))
    return v


def from_model(j):
    """the driver's JSON rendering of a Model/Tree.v tree -> python tree"""
    k = j[0]
    if k == "num":
        return ("num", int(j[1], 16) if isinstance(j[1], str) else j[1])
    if k == "int":
        return ("num", j[1])
    if k == "bool":
        return ("bool", j[1])
    if k == "str":
        return ("str", bytes.fromhex(j[1]))
    if k == "fourcc":
        return ("fourcc", int(j[1], 16))
    if k == "list":
        return ("list", [from_model(x) for x in j[1]])
    if k == "none":
        return ("none",)
    if k == "some":
        return ("some", from_model(j[1]))
    if k == "enum":
        return ("enum", j[1])
    if k == "rec":
        return ("rec", j[1], [(f, from_model(v)) for f, v in j[2]])
    if k == "tuple":
        return ("tuple", [from_model(x) for x in j[1]])
    raise ValueError(k)


def lossy(b):
    return bytes(b).decode("utf-8", "replace")


def equal(r, m, path="$"):
    """compare a parsed Rust tree with a model tree; returns None or a path description of the first difference"""
    if r[0] == "map":
        # HashMap: the model shows a list of (key, value) tuples in a fixed order
        if m[0] != "list":
            return path + ": map vs " + m[0]
        mm = {repr(x[1][0]): x[1][1] for x in m[1] if x[0] == "tuple"}
        rr = {repr(k): v for k, v in r[1]}
        if set(mm) != set(rr):
            return path + ": map keys differ"
        for k in mm:
            d = equal(rr[k], mm[k], path + "{" + k + "}")
            if d:
                return d
        return None
    if r[0] == "rec" and m[0] == "rec" and not r[2] and not m[2]:
        return None if r[1] == m[1] else path + ": %s vs %s" % (r[1], m[1])
    if r[0] == "enum" and m[0] == "rec" and not m[2]:
        return None if r[1] == m[1] else path + ": %s vs %s" % (r[1], m[1])
    if r[0] != m[0]:
        return path + ": %s vs %s" % (r[0], m[0])
    if r[0] in ("num", "bool", "fourcc"):
        return None if r[1] == m[1] else path + ": %r vs %r" % (r[1], m[1])
    if r[0] == "enum":
        a, b = r[1], m[1]
        if a == b or a == lossy(b.encode("latin1")):
            return None
        return path + ": %r vs %r" % (a, b)
    if r[0] == "str":
        return None if r[1] == m[1] else path + ": %r vs %r" % (r[1], m[1])
    if r[0] == "none":
        return None
    if r[0] == "some":
        return equal(r[1], m[1], path + ".Some")
    if r[0] in ("list", "tuple"):
        if len(r[1]) != len(m[1]):
            return path + ": length %d vs %d" % (len(r[1]), len(m[1]))
        for i, (a, b) in enumerate(zip(r[1], m[1])):
            d = equal(a, b, "%s[%d]" % (path, i))
            if d:
                return d
        return None
    if r[0] == "rec":
        if r[1] != m[1]:
            return path + ": struct %s vs %s" % (r[1], m[1])
        if [f for f, _ in r[2]] != [f for f, _ in m[2]]:
            return path + ": fields %s vs %s" % ([f for f, _ in r[2]], [f for f, _ in m[2]])
        for (f, a), (_, b) in zip(r[2], m[2]):
            d = equal(a, b, path + "." + f)
            if d:
                return d
        return None
    return path + ": unhandled " + r[0]
