"""C01 — muxed samples read back exactly (mux -> demux fidelity).

proof:           Props/C01.v (writer invariants over unbounded histories), Props/C01Readback.v (composed with the lookup theorems),
                 Props/C01Open.v (the end-to-end theorem: open_fuel on the muxer's complete output bytes returns a reader whose accessors and
                 sample calls return the configuration and the history)
correspondence:  extracted Writer model vs the real Mp4Writer on the same histories: per-call outcome classes,
                 the bytes before moov, every sample table / header field read from the real output by the
                 independent ISO parser (Iso/IsoFile.v, extracted)
oracle:          real Mp4Writer -> real Mp4Reader, compared with the accepted history (pure list manipulation);
                 rejected calls leave no trace: output identical to the history with the rejected calls removed
"""
import json
import random

import common
import muxcheck
import muxgen

LEVEL = "proof"
CONE = ["Props/C01.v", "Props/C01Readback.v", "Props/C01Open.v", "Proofs/MuxProofs.v", "Proofs/MuxInv.v", "Proofs/MuxReadback.v", "Proofs/MuxOpen.v", "Proofs/MuxOpenKit.v",
        "Proofs/MuxOpenFacts.v", "Proofs/MuxMoovDefs.v", "Proofs/MuxMoovConf.v", "Proofs/MuxMoovTables.v", "Proofs/LayoutOpenS.v", "Model/Writer.v", "Model/WriterMoov.v", "Model/Track.v", "Model/Reader.v"]
MODULES = ["C01", "C01Readback", "C01Open"]


def histories(rep):
    rng = random.Random(rep.seed * 7919 + 1)
    hs = muxgen.exhaustive_small()
    n_rand = 300 if rep.tier == "quick" else 6000
    hs += [muxgen.random_history(rng) for _ in range(n_rand)]
    return hs


def build(rep, bins=("run",)):
    with common.Lock():
        hb_ok, hb_log = common.harness_build(list(bins))
        ob_ok, ob_log = common.ocaml_build()
    if not ob_ok:
        rep.violation("model_build", {"kind": "obligation", "what": "extracted model does not build", "log": ob_log[-2000:]}, no_input=True)
        return False
    if not hb_ok:
        rep.violation("harness_build", {"kind": "correspondence", "what": "harness does not compile against /repo", "log": hb_log[-3000:]}, no_input=True)
        return False
    return True


def check(rep):
    proof_ok, details = common.proof_layer(rep, MODULES, CONE, extra_targets=["theories/Extract/Extract.vo"])
    if not build(rep):
        return
    hs = histories(rep)
    fails, ties = [], []
    distinct = set()
    stats = {"histories": len(hs), "tracks": 0, "samples": 0, "rejected_calls": 0, "kinds": {}}
    for profile in ("debug", "release"):
        res = muxcheck.run_all(hs, profile)
        for i, r in enumerate(res):
            f = muxcheck.oracle_c01(r)
            if f:
                fails.append(("readback_%s_%d" % (profile, i), dict(f, kind="input", profile=profile, history=r["h"])))
            t = muxcheck.correspondence(r)
            if t:
                ties.append(("model_vs_impl_%s_%d" % (profile, i), dict(t, kind="correspondence", profile=profile, history=r["h"])))
            if profile == "debug":
                tracks, st = muxgen.spec(r["h"])
                stats["tracks"] += len(tracks)
                stats["samples"] += sum(len(t["samples"]) for t in tracks)
                stats["rejected_calls"] += st.count("data")
                for t in tracks:
                    stats["kinds"][t["conf"]["kind"]] = stats["kinds"].get(t["conf"]["kind"], 0) + 1
                if any(t["samples"] for t in tracks):
                    distinct.add(json.dumps(r["h"], sort_keys=True))
        if profile == "debug":
            # rejected calls leave no trace: same bytes as the filtered history
            withrej = [r for r in res if "data" in muxgen.spec(r["h"])[1]]
            filt = muxcheck.run_all([muxgen.filtered(r["h"]) for r in withrej], profile, want_iso=False)
            for a, b in zip(withrej, filt):
                if a["impl"].get("out") != b["impl"].get("out"):
                    fails.append(("rejected_leave_trace", {"kind": "input", "what": "output differs from the output of the history without the rejected calls",
                                                            "history": a["h"], "filtered": b["h"]}))
    rep.coverage.update({
        "evaluations": 2 * len(hs),
        "distinct_nontrivial": len(distinct),
        "rule": "shape-exhaustive small histories (all 5 kinds x sample sequences over an alphabet hitting size switch / zero sizes / lazy ctts+stss / "
                "duration-driven chunk flush, two interleaved tracks with rejected calls at every position, extreme timescales) + seeded random histories; "
                "each run in the debug and the release profile; non-trivial = distinct histories with at least one accepted sample",
        "input_distribution": stats,
    })
    rep.coverage["samples"] = [hs[7], hs[len(hs) // 2]]
    rep.assumptions = ["harness/run is the compiled /repo library", "ocaml/driver.ml glue", "muxgen.spec (accepted-history oracle) is 30 lines of list manipulation"]
    known = [f for f in common.known_findings() if f["property"] == "C01" and f["status"] == "known"]
    new_fails = []
    for name, payload in fails:
        k = next((f for f in known if f.get("match") and f["match"] in payload.get("what", "")), None)
        if k:
            rep.known(k["id"], payload["what"])
        else:
            new_fails.append((name, payload))
    for name, payload in new_fails[:5]:
        rep.violation(name, payload)
    if new_fails:
        return
    if not proof_ok:
        rep.violation("proof_obligation", {"kind": "obligation", "what": "Props/C01 no longer checks", "details": details,
                                           "searched": "%d histories x 2 profiles on the real muxer+reader: no failing input" % len(hs)}, no_input=True)
        return
    for name, payload in ties[:5]:
        payload["searched"] = "%d histories x 2 profiles: read-back oracle found no failing input" % len(hs)
        rep.violation(name, payload, no_input=True)
