(* Driver for the extracted Coq model: trusted glue (hex/line parsing, printing).
   One command per stdin line, one result line per command on stdout.
   Numbers travel as lowercase hex without prefix, byte strings as hex pairs
   ("-" is the empty byte string). *)
module M = Model
open M
(* Model shadows [string] with Coq's string type: restore OCaml's *)
type string = Stdlib.String.t
type cstring = M.string

(* ---------- conversions ---------- *)
let rec pos_of_int (i : int) : positive =
  if i = 1 then XH
  else if i land 1 = 1 then XI (pos_of_int (i lsr 1))
  else XO (pos_of_int (i lsr 1))
let n_of_int (i : int) : n = if i = 0 then N0 else Npos (pos_of_int i)
let rec int_of_pos = function
  | XH -> 1
  | XO p -> 2 * int_of_pos p
  | XI p -> 2 * int_of_pos p + 1
let int_of_n = function N0 -> 0 | Npos p -> int_of_pos p

(* hex <-> N without going through int (values up to 2^64 and beyond) *)
let hexval c =
  match c with
  | '0' .. '9' -> Char.code c - 48
  | 'a' .. 'f' -> Char.code c - 87
  | 'A' .. 'F' -> Char.code c - 55
  | _ -> failwith "hex"
let n_of_hex (s : string) : n =
  (* bits most significant first *)
  let bits = ref [] in
  String.iter (fun c -> let v = hexval c in
    bits := (v land 1 = 1) :: (v land 2 = 2) :: (v land 4 = 4) :: (v land 8 = 8) :: !bits) s;
  (* !bits is least significant first *)
  let rec strip_high l = match l with true :: _ -> l | false :: t -> strip_high t | [] -> [] in
  let msb_first = strip_high (List.rev !bits) in
  match msb_first with
  | [] -> N0
  | _ :: rest ->
    let p = List.fold_left (fun acc b -> if b then XI acc else XO acc) XH rest in
    Npos p
let hex_of_n (x : n) : string =
  match x with
  | N0 -> "0"
  | Npos p ->
    let rec bits p acc = match p with XH -> true :: acc | XO q -> bits q (false :: acc) | XI q -> bits q (true :: acc) in
    (* [bits] builds most significant first *)
    let b = bits p [] in
    let len = List.length b in
    let pad = (4 - len mod 4) mod 4 in
    let b = List.init pad (fun _ -> false) @ b in
    let buf = Buffer.create 16 in
    let rec go = function
      | a :: b' :: c :: d :: t ->
        let v = (if a then 8 else 0) + (if b' then 4 else 0) + (if c then 2 else 0) + (if d then 1 else 0) in
        Buffer.add_char buf "0123456789abcdef".[v]; go t
      | _ -> () in
    go b; Buffer.contents buf
let z_of_dec (s : string) : z =
  let neg = String.length s > 0 && s.[0] = '-' in
  let body = if neg then String.sub s 1 (String.length s - 1) else s in
  let i = int_of_string body in
  if i = 0 then Z0 else if neg then Zneg (pos_of_int i) else Zpos (pos_of_int i)
let dec_of_z = function
  | Z0 -> "0"
  | Zpos p -> string_of_int (int_of_pos p)
  | Zneg p -> "-" ^ string_of_int (int_of_pos p)

let byte_tab : n array = Array.init 256 n_of_int
let bytes_of_hex (s : string) : n list =
  if s = "-" then [] else begin
    let len = String.length s / 2 in
    let rec go i acc = if i < 0 then acc else
        go (i - 1) (byte_tab.(hexval s.[2*i] * 16 + hexval s.[2*i+1]) :: acc) in
    go (len - 1) []
  end
let hex_of_bytes (l : n list) : string =
  match l with
  | [] -> "-"
  | _ ->
    let buf = Buffer.create 64 in
    List.iter (fun b -> let v = int_of_n b land 255 in
                Buffer.add_char buf "0123456789abcdef".[v lsr 4];
                Buffer.add_char buf "0123456789abcdef".[v land 15]) l;
    Buffer.contents buf

let ocaml_string (s : cstring) : string =
  let buf = Buffer.create 16 in
  let rec go = function
    | EmptyString -> ()
    | String (Ascii (b0,b1,b2,b3,b4,b5,b6,b7), t) ->
      let bit b k = if b then 1 lsl k else 0 in
      Buffer.add_char buf (Char.chr (bit b0 0 + bit b1 1 + bit b2 2 + bit b3 3 + bit b4 4 + bit b5 5 + bit b6 6 + bit b7 7));
      go t in
  go s; Buffer.contents buf
let coq_string (s : string) : cstring =
  let r = ref EmptyString in
  for i = String.length s - 1 downto 0 do
    let c = Char.code s.[i] in
    let b k = c land (1 lsl k) <> 0 in
    r := String (Ascii (b 0, b 1, b 2, b 3, b 4, b 5, b 6, b 7), !r)
  done; !r

let show_res (f : 'a -> string) (r : 'a res) : string =
  match r with
  | Ok a -> "ok " ^ f a
  | Err EIo -> "io"
  | Err EData -> "data"
  | Err ENotFound -> "data"
  | Panic s -> "panic " ^ ocaml_string s
  | OutOfFuel -> "oof"

(* ---------- commands ---------- *)
let handle (line : string) : string =
  match String.split_on_char ' ' line with
  | ["utf8"; h] ->
    let b = bytes_of_hex h in
    (if utf8_valid b then "1 " else "0 ") ^ hex_of_bytes (utf8_lossy b)
  | ["lang_code"; h] -> hex_of_n (language_code (bytes_of_hex h))
  | ["lang_string"; c] -> hex_of_bytes (language_string (n_of_hex c))
  | ["fourcc_display"; c] -> hex_of_bytes (fourcc_display (n_of_hex c))
  | ["fourcc_from_str"; h] -> show_res hex_of_n (fourcc_from_str (bytes_of_hex h))
  | ["boxtype"; c] -> let b = boxtype_of_u32 (n_of_hex c) in ocaml_string (name_of b) ^ " " ^ hex_of_n (u32_of_boxtype b)
  | ["parse_u32"; h] -> (match parse_u32 (bytes_of_hex h) with Some v -> "some " ^ hex_of_n v | None -> "none")
  | ["avc_profile"; p; c] -> show_res ocaml_string (avc_profile_try_from (n_of_hex p) (n_of_hex c))
  | ["tracktype_str"; h] -> show_res ocaml_string (tracktype_of_str (bytes_of_hex h))
  | ["mediatype_str"; h] -> show_res ocaml_string (mediatype_of_str (bytes_of_hex h))
  | ["iso"] ->
    let q s = "\"" ^ s ^ "\"" in
    let lst f l = "[" ^ String.concat "," (List.map f l) ^ "]" in
    let avc = Buffer.create 65536 in
    for p = 0 to 255 do for c = 0 to 255 do
      Buffer.add_char avc (match iso_avc_profile (n_of_int p) (n_of_int c) with
        | None -> '-'
        | Some s -> (match ocaml_string s with
            | "AvcConstrainedBaseline" -> 'C' | "AvcBaseline" -> 'B' | "AvcMain" -> 'M'
            | "AvcExtended" -> 'E' | "AvcHigh" -> 'H' | _ -> '?'))
    done done;
    "{" ^ String.concat "," [
      q "boxtypes" ^ ":" ^ lst (fun (n, c) -> "[" ^ q (ocaml_string n) ^ "," ^ string_of_int (int_of_n c) ^ "]") iso_boxtype_table;
      q "box_types" ^ ":" ^ lst (fun (a, b) -> "[" ^ q (ocaml_string a) ^ "," ^ q (ocaml_string b) ^ "]") iso_box_types;
      q "aot" ^ ":" ^ lst (fun (c, n) -> "[" ^ string_of_int (int_of_n c) ^ "," ^ q (ocaml_string n) ^ "]") iso_audio_object_types;
      q "sfi" ^ ":" ^ lst (fun ((c, n), f) -> "[" ^ string_of_int (int_of_n c) ^ "," ^ q (ocaml_string n) ^ "," ^ string_of_int (int_of_n f) ^ "]") iso_sample_freq;
      q "chan" ^ ":" ^ lst (fun (c, n) -> "[" ^ string_of_int (int_of_n c) ^ "," ^ q (ocaml_string n) ^ "]") iso_channel_config;
      q "datatype" ^ ":" ^ lst (fun (c, n) -> "[" ^ string_of_int (int_of_n c) ^ "," ^ q (ocaml_string n) ^ "]") iso_data_type;
      q "handlers" ^ ":" ^ lst (fun (k, h) -> "[" ^ q (ocaml_string k) ^ "," ^ q (ocaml_string h) ^ "," ^ string_of_int (int_of_n (cc h)) ^ "]") iso_handlers;
      q "media" ^ ":" ^ lst (fun (k, h) -> "[" ^ q (ocaml_string k) ^ "," ^ q (ocaml_string h) ^ "]") iso_media;
      q "avc" ^ ":" ^ q (Buffer.contents avc) ] ^ "}"
  | ["ping"] -> "pong"
  | _ -> "EXN unknown command"

let () =
  try
    while true do
      let line = input_line stdin in
      let out = try handle line with e -> "EXN " ^ Printexc.to_string e in
      print_string out; print_char '\n'
    done
  with End_of_file -> ()
