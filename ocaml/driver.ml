(* Driver for the extracted Coq model: trusted glue (hex/line parsing, printing).
   One command per stdin line, one result line per command on stdout.
   Numbers travel as lowercase hex without prefix, byte strings as hex pairs
   ("-" is the empty byte string). *)
module M = Model
open M
(* Model shadows [string] with Coq's string type: restore OCaml's *)
type string = Stdlib.String.t
type cstring = M.string

(* ---------- conversions ---------- *)
let rec pos_of_int (i : int) : positive =
  if i = 1 then XH
  else if i land 1 = 1 then XI (pos_of_int (i lsr 1))
  else XO (pos_of_int (i lsr 1))
let n_of_int (i : int) : n = if i = 0 then N0 else Npos (pos_of_int i)
let rec int_of_pos = function
  | XH -> 1
  | XO p -> 2 * int_of_pos p
  | XI p -> 2 * int_of_pos p + 1
let int_of_n = function N0 -> 0 | Npos p -> int_of_pos p

(* hex <-> N without going through int (values up to 2^64 and beyond) *)
let hexval c =
  match c with
  | '0' .. '9' -> Char.code c - 48
  | 'a' .. 'f' -> Char.code c - 87
  | 'A' .. 'F' -> Char.code c - 55
  | _ -> failwith "hex"
let n_of_hex (s : string) : n =
  (* bits most significant first *)
  let bits = ref [] in
  String.iter (fun c -> let v = hexval c in
    bits := (v land 1 = 1) :: (v land 2 = 2) :: (v land 4 = 4) :: (v land 8 = 8) :: !bits) s;
  (* !bits is least significant first *)
  let rec strip_high l = match l with true :: _ -> l | false :: t -> strip_high t | [] -> [] in
  let msb_first = strip_high (List.rev !bits) in
  match msb_first with
  | [] -> N0
  | _ :: rest ->
    let p = List.fold_left (fun acc b -> if b then XI acc else XO acc) XH rest in
    Npos p
let hex_of_n (x : n) : string =
  match x with
  | N0 -> "0"
  | Npos p ->
    let rec bits p acc = match p with XH -> true :: acc | XO q -> bits q (false :: acc) | XI q -> bits q (true :: acc) in
    (* [bits] builds most significant first *)
    let b = bits p [] in
    let len = List.length b in
    let pad = (4 - len mod 4) mod 4 in
    let b = List.init pad (fun _ -> false) @ b in
    let buf = Buffer.create 16 in
    let rec go = function
      | a :: b' :: c :: d :: t ->
        let v = (if a then 8 else 0) + (if b' then 4 else 0) + (if c then 2 else 0) + (if d then 1 else 0) in
        Buffer.add_char buf "0123456789abcdef".[v]; go t
      | _ -> () in
    go b; Buffer.contents buf
let z_of_dec (s : string) : z =
  let neg = String.length s > 0 && s.[0] = '-' in
  let body = if neg then String.sub s 1 (String.length s - 1) else s in
  let i = int_of_string body in
  if i = 0 then Z0 else if neg then Zneg (pos_of_int i) else Zpos (pos_of_int i)
let dec_of_z = function
  | Z0 -> "0"
  | Zpos p -> string_of_int (int_of_pos p)
  | Zneg p -> "-" ^ string_of_int (int_of_pos p)

let byte_tab : n array = Array.init 256 n_of_int
let bytes_of_hex (s : string) : n list =
  if s = "-" then [] else begin
    let len = String.length s / 2 in
    let rec go i acc = if i < 0 then acc else
        go (i - 1) (byte_tab.(hexval s.[2*i] * 16 + hexval s.[2*i+1]) :: acc) in
    go (len - 1) []
  end
let hex_of_bytes (l : n list) : string =
  match l with
  | [] -> "-"
  | _ ->
    let buf = Buffer.create 64 in
    List.iter (fun b -> let v = int_of_n b land 255 in
                Buffer.add_char buf "0123456789abcdef".[v lsr 4];
                Buffer.add_char buf "0123456789abcdef".[v land 15]) l;
    Buffer.contents buf

let ocaml_string (s : cstring) : string =
  let buf = Buffer.create 16 in
  let rec go = function
    | EmptyString -> ()
    | String (Ascii (b0,b1,b2,b3,b4,b5,b6,b7), t) ->
      let bit b k = if b then 1 lsl k else 0 in
      Buffer.add_char buf (Char.chr (bit b0 0 + bit b1 1 + bit b2 2 + bit b3 3 + bit b4 4 + bit b5 5 + bit b6 6 + bit b7 7));
      go t in
  go s; Buffer.contents buf
let coq_string (s : string) : cstring =
  let r = ref EmptyString in
  for i = String.length s - 1 downto 0 do
    let c = Char.code s.[i] in
    let b k = c land (1 lsl k) <> 0 in
    r := String (Ascii (b 0, b 1, b 2, b 3, b 4, b 5, b 6, b 7), !r)
  done; !r

let show_res (f : 'a -> string) (r : 'a res) : string =
  match r with
  | Ok a -> "ok " ^ f a
  | Err EIo -> "io"
  | Err EData -> "data"
  | Err ENotFound -> "data"
  | Panic s -> "panic " ^ ocaml_string s
  | OutOfFuel -> "oof"


(* ---------- JSON-ish printing ---------- *)
let jn (x : n) : string = "\"" ^ hex_of_n x ^ "\""
let jz (x : z) : string = dec_of_z x
let jb (b : bool) : string = if b then "true" else "false"
let jl f l = "[" ^ String.concat "," (List.map f l) ^ "]"
let jo f = function None -> "null" | Some x -> f x
let jbytes (b : n list) : string = "\"" ^ (match b with [] -> "" | _ -> hex_of_bytes b) ^ "\""
let jclass = function COk -> "\"ok\"" | CIo -> "\"io\"" | CData -> "\"data\"" | CPanic -> "\"panic\"" | COof -> "\"oof\""
let jres f r = match r with
  | Ok a -> "{\"r\":\"ok\",\"v\":" ^ f a ^ "}"
  | Err EIo -> "{\"r\":\"io\"}"
  | Err EData -> "{\"r\":\"data\"}"
  | Err ENotFound -> "{\"r\":\"notfound\"}"
  | Panic s -> "{\"r\":\"panic\",\"site\":\"" ^ ocaml_string s ^ "\"}"
  | OutOfFuel -> "{\"r\":\"oof\"}"
let jtables (t : tables) : string =
  "{\"stsc\":" ^ jl (fun e -> "[" ^ jn e.sc_first_chunk ^ "," ^ jn e.sc_samples_per_chunk ^ "," ^ jn e.sc_sample_description_index ^ "]") t.t_stsc
  ^ ",\"stsz\":[" ^ jn t.t_stsz_size ^ "," ^ jn t.t_stsz_count ^ "," ^ jl jn t.t_stsz_sizes ^ "]"
  ^ ",\"stco\":" ^ jo (jl jn) t.t_stco ^ ",\"co64\":" ^ jo (jl jn) t.t_co64
  ^ ",\"stts\":" ^ jl (fun (c, d) -> "[" ^ jn c ^ "," ^ jn d ^ "]") t.t_stts
  ^ ",\"ctts\":" ^ jo (jl (fun (c, o) -> "[" ^ jn c ^ "," ^ jz o ^ "]")) t.t_ctts
  ^ ",\"stss\":" ^ jo (jl jn) t.t_stss ^ "}"

(* ---------- parsing of case lines ---------- *)
let mode_of = function "d" -> Dbg | _ -> Rel
let split c s = if s = "-" || s = "" then [] else String.split_on_char c s
let nlist s = List.map n_of_hex (split ',' s)
let blob_of (s : string) : n list =
  if String.length s > 0 && s.[0] = '@' then begin
    match String.split_on_char ':' (String.sub s 1 (String.length s - 1)) with
    | [fill; len; step] ->
      let fill = int_of_string fill and len = int_of_string len and step = int_of_string step in
      List.init len (fun i -> byte_tab.((fill + i * step) land 255))
    | _ -> failwith "blob"
  end else bytes_of_hex s

let rec parse_ops (toks : string list) : mux_op list =
  match toks with
  | [] -> []
  | "A" :: "avc" :: tt :: ts :: lang :: w :: h :: sps :: pps :: rest ->
    OpAddTrack { tc_track_type = coq_string tt; tc_timescale = n_of_hex ts; tc_language = bytes_of_hex lang;
                 tc_media = AvcConf (n_of_hex w, n_of_hex h, bytes_of_hex sps, bytes_of_hex pps) } :: parse_ops rest
  | "A" :: "hevc" :: tt :: ts :: lang :: w :: h :: rest ->
    OpAddTrack { tc_track_type = coq_string tt; tc_timescale = n_of_hex ts; tc_language = bytes_of_hex lang;
                 tc_media = HevcConf (n_of_hex w, n_of_hex h) } :: parse_ops rest
  | "A" :: "vp9" :: tt :: ts :: lang :: w :: h :: rest ->
    OpAddTrack { tc_track_type = coq_string tt; tc_timescale = n_of_hex ts; tc_language = bytes_of_hex lang;
                 tc_media = Vp9Conf (n_of_hex w, n_of_hex h) } :: parse_ops rest
  | "A" :: "aac" :: tt :: ts :: lang :: br :: p :: f :: c :: rest ->
    OpAddTrack { tc_track_type = coq_string tt; tc_timescale = n_of_hex ts; tc_language = bytes_of_hex lang;
                 tc_media = AacConf (n_of_hex br, coq_string p, coq_string f, coq_string c) } :: parse_ops rest
  | "A" :: "ttxt" :: tt :: ts :: lang :: rest ->
    OpAddTrack { tc_track_type = coq_string tt; tc_timescale = n_of_hex ts; tc_language = bytes_of_hex lang;
                 tc_media = TtxtConf } :: parse_ops rest
  | "W" :: tid :: dur :: cts :: sync :: b :: rest ->
    OpWrite (n_of_hex tid, { ws_duration = n_of_hex dur; ws_rendering_offset = z_of_dec cts;
                             ws_is_sync = (sync = "1"); ws_bytes = blob_of b }) :: parse_ops rest
  | t :: _ -> failwith ("bad op token " ^ t)

let parse_tables (toks : string list) : tables =
  let get k = try let p = k ^ "=" in
      let t = List.find (fun s -> String.length s >= String.length p && String.sub s 0 (String.length p) = p) toks in
      Some (String.sub t (String.length p) (String.length t - String.length p))
    with Not_found -> None in
  let req k = match get k with Some v -> v | None -> failwith ("missing " ^ k) in
  let pairs s = List.map (fun e -> match String.split_on_char ':' e with [a; b] -> (a, b) | _ -> failwith "pair") (split ',' s) in
  let stsc = List.map (fun e -> match String.split_on_char ':' e with
      | [a; b; c] -> { sc_first_chunk = n_of_hex a; sc_samples_per_chunk = n_of_hex b; sc_sample_description_index = n_of_hex c; sc_first_sample = N0 }
      | _ -> failwith "stsc") (split ',' (req "stsc")) in
  let stsz = req "stsz" in
  let (ssize, scount, sizes) = match String.split_on_char ':' stsz with
    | [a; b; c] -> (n_of_hex a, n_of_hex b, nlist c) | [a; b] -> (n_of_hex a, n_of_hex b, []) | _ -> failwith "stsz" in
  { t_stsc = stsc; t_stsz_size = ssize; t_stsz_count = scount; t_stsz_sizes = sizes;
    t_stco = (match get "stco" with Some v -> Some (nlist v) | None -> None);
    t_co64 = (match get "co64" with Some v -> Some (nlist v) | None -> None);
    t_stts = List.map (fun (a, b) -> (n_of_hex a, n_of_hex b)) (pairs (req "stts"));
    t_ctts = (match get "ctts" with Some v -> Some (List.map (fun (a, b) -> (n_of_hex a, z_of_dec b)) (pairs v)) | None -> None);
    t_stss = (match get "stss" with Some v -> Some (nlist v) | None -> None) }

let jsample (s : sample) = "{\"start\":" ^ jn s.sm_start_time ^ ",\"dur\":" ^ jn s.sm_duration ^ ",\"cts\":" ^ jz s.sm_rendering_offset
                           ^ ",\"sync\":" ^ jb s.sm_is_sync ^ ",\"bytes\":" ^ jbytes s.sm_bytes ^ "}"

let cmd_mux (toks : string list) : string =
  match toks with
  | md :: base :: major :: minor :: ts :: brands :: ops ->
    let cfg = { mc_major_brand = n_of_hex major; mc_minor_version = n_of_hex minor;
                mc_compatible_brands = nlist brands; mc_timescale = n_of_hex ts } in
    let ops' = parse_ops ops in
    let full = (match mux_bytes (mode_of md) (n_of_hex base) cfg ops' with
        | Ok (_, b) -> "{\"r\":\"ok\",\"bytes\":" ^ jbytes b ^ "}"
        | Err _ -> "{\"r\":\"err\"}" | Panic s -> "{\"r\":\"panic\",\"site\":\"" ^ ocaml_string s ^ "\"}" | OutOfFuel -> "{\"r\":\"oof\"}") in
    let r = run_mux (mode_of md) (n_of_hex base) cfg ops' in
    let with_full s = if String.length s > 0 && s.[String.length s - 1] = '}' then String.sub s 0 (String.length s - 1) ^ ",\"full\":" ^ full ^ "}" else s in
    with_full @@ jres (fun (cls, f) ->
        "{\"st\":" ^ jl jclass cls ^ ",\"out\":" ^ jbytes f.mf_out ^ ",\"mdat_pos\":" ^ jn f.mf_mdat_pos
        ^ ",\"mdat_size\":" ^ jn f.mf_mdat_size
        ^ ",\"mvhd\":[" ^ jn f.mf_mvhd_timescale ^ "," ^ jn f.mf_mvhd_duration ^ "," ^ jn f.mf_mvhd_version ^ "]"
        ^ ",\"tracks\":" ^ jl (fun t ->
            "{\"id\":" ^ jn t.tf_track_id ^ ",\"tables\":" ^ jtables t.tf_tables
            ^ ",\"hdr\":[" ^ jn t.tf_hdr.wh_mdhd_duration ^ "," ^ jn t.tf_hdr.wh_mdhd_version ^ ","
            ^ jn t.tf_hdr.wh_tkhd_duration ^ "," ^ jn t.tf_hdr.wh_tkhd_version ^ "]"
            ^ ",\"max\":" ^ jn t.tf_max_sample_size ^ "}") f.mf_tracks ^ "}") r
  | _ -> "EXN mux args"

let cmd_isofile (toks : string list) : string =
  match toks with
  | [base; data; expect] ->
    let base = n_of_hex base in
    let data = bytes_of_hex data in
    let exp = List.map (fun e -> match String.split_on_char ':' e with [a; b] -> (n_of_hex a, n_of_hex b) | _ -> failwith "expect") (split ',' expect) in
    let chk = iso_check_file base exp data in
    (match iso_file base data with
     | None -> "{\"parse\":false,\"check\":" ^ jb chk ^ "}"
     | Some f ->
       "{\"parse\":true,\"check\":" ^ jb chk
       ^ ",\"mvhd\":[" ^ jn f.if_mvhd_version ^ "," ^ jn f.if_mvhd_timescale ^ "," ^ jn f.if_mvhd_duration ^ "]"
       ^ ",\"mdat\":" ^ jl (fun b -> "[" ^ jn b.ib_off ^ "," ^ jn b.ib_hdr ^ "," ^ jn b.ib_size ^ "]") f.if_mdat
       ^ ",\"top\":" ^ jl (fun b -> "[" ^ jn b.ib_type ^ "," ^ jn b.ib_off ^ "," ^ jn b.ib_size ^ "]") f.if_top
       ^ ",\"tracks\":" ^ jl (fun t ->
           "{\"id\":" ^ jn t.it_track_id ^ ",\"tkhd\":[" ^ jn t.it_tkhd_version ^ "," ^ jn t.it_tkhd_duration ^ "," ^ jn t.it_width ^ "," ^ jn t.it_height ^ "]"
           ^ ",\"mdhd\":[" ^ jn t.it_mdhd_version ^ "," ^ jn t.it_timescale ^ "," ^ jn t.it_mdhd_duration ^ "," ^ jn t.it_language ^ "]"
           ^ ",\"handler\":" ^ jn t.it_handler ^ ",\"entry_type\":" ^ jn t.it_entry_type ^ ",\"entry\":" ^ jbytes t.it_entry
           ^ ",\"tables\":" ^ jtables t.it_tables ^ "}") f.if_tracks ^ "}")
  | _ -> "EXN isofile args"

(* lookup <mode> <datahex|-> ids=<a,b,..> stsc=.. stsz=.. [stco=..|co64=..] stts=.. [ctts=..] [stss=..] *)
let cmd_lookup (toks : string list) : string =
  match toks with
  | md :: data :: rest ->
    let m = mode_of md in
    let tb = parse_tables rest in
    let ids = match List.find_opt (fun s -> String.length s > 4 && String.sub s 0 4 = "ids=") rest with
      | Some s -> nlist (String.sub s 4 (String.length s - 4)) | None -> [] in
    let data = bytes_of_hex data in
    let cons = consistent tb in
    let tr = match derive_first_samples tb.t_stsc (n_of_int 1) with
      | Some es -> Some { tr_id = n_of_int 1; tr_tables = { tb with t_stsc = es }; tr_frags = []; tr_default_sample_duration = N0 }
      | None -> None in
    (match tr with
     | None -> "{\"consistent\":" ^ jb cons ^ ",\"derive\":false}"
     | Some t ->
       "{\"consistent\":" ^ jb cons ^ ",\"derive\":true,\"count\":" ^ jn (sample_count t)
       ^ ",\"ids\":" ^ jl (fun k ->
           let (r, _) = run (read_sample m t k) (stream_at data N0) in
           "{\"k\":" ^ jn k ^ ",\"off\":" ^ jres jn (sample_offset m t k)
           ^ ",\"rs\":" ^ jres (jo jsample) r
           ^ (if int_of_n k <= int_of_n tb.t_stsz_count + 3 then
                ",\"spec\":{\"off\":" ^ jo jn (spec_offset tb k) ^ ",\"size\":" ^ jo jn (spec_size tb k)
                ^ ",\"delta\":" ^ jo jn (spec_delta tb k) ^ ",\"start\":" ^ jn (spec_start tb k)
                ^ ",\"cts\":" ^ jo jz (spec_cts tb k) ^ ",\"sync\":" ^ jb (spec_sync tb k) ^ "}}"
              else ",\"spec\":null}")) ids ^ "}")
  | _ -> "EXN lookup args"


(* ---------- reader ---------- *)
let rec nat_of_int (i : int) : nat = if i <= 0 then O else S (nat_of_int (i - 1))
let jstr (s : cstring) = "\"" ^ ocaml_string s ^ "\""
let kv k v = "\"" ^ k ^ "\":" ^ v
let obj l = "{" ^ String.concat "," l ^ "}"
let jrs (r : sample option res) : string =
  match r with
  | Ok (Some s) -> obj [kv "r" "\"some\""; kv "start" (jn s.sm_start_time); kv "dur" (jn s.sm_duration); kv "cts" (jz s.sm_rendering_offset);
                        kv "sync" (jb s.sm_is_sync); kv "len" (string_of_int (List.length s.sm_bytes)); kv "bytes" (jbytes s.sm_bytes)]
  | Ok None -> obj [kv "r" "\"none\""]
  | Err EIo -> obj [kv "r" "\"io\""]
  | Err _ -> obj [kv "r" "\"data\""]
  | Panic s -> obj [kv "r" "\"panic\""; kv "site" (jstr s)]
  | OutOfFuel -> obj [kv "r" "\"oof\""]

let dump_reader (m : mode) (r : mp4reader) (data : n list) (extra : int) (maxs : int) : string list =
  let ids = List.sort_uniq compare (List.map (fun (k, _) -> int_of_n k) r.rd_tracks) in
  let tracks = List.map (fun id ->
      let t = match tracks_get (n_of_int id) r.rd_tracks with Some t -> t | None -> failwith "track" in
      obj ([kv "id" (string_of_int id); kv "track_id" (jn (mt_track_id t)); kv "type" (jres jstr (mt_track_type t));
            kv "media" (jres jstr (mt_media_type t)); kv "box" (jres jn (mt_box_type t)); kv "w" (jn (mt_width t)); kv "h" (jn (mt_height t));
            kv "sfi" (jres jstr (mt_sample_freq_index t)); kv "chan" (jres jstr (mt_channel_config t)); kv "lang" (jbytes (mt_language t));
            kv "ts" (jn (mt_timescale t)); kv "dur_us" (jn (mt_duration_us t)); kv "bitrate" (jo jn (mt_bitrate t));
            kv "count" (jn (mt_sample_count t)); kv "vprofile" (jres jstr (mt_video_profile t));
            kv "sps" (jres jbytes (mt_sequence_parameter_set t)); kv "pps" (jres jbytes (mt_picture_parameter_set t));
            kv "aprofile" (jres jstr (mt_audio_profile t))])) ids in
  let call kind tid sid =
    let v = match kind with
      | "cnt" -> jres jn (rd_sample_count r (n_of_int tid))
      | "off" -> jres jn (rd_sample_offset m r (n_of_int tid) (n_of_int sid))
      | _ -> let (res, _) = run (rd_read_sample m r (n_of_int tid) (n_of_int sid)) (stream_at data N0) in jrs res in
    "[\"" ^ kind ^ "\"," ^ string_of_int tid ^ "," ^ string_of_int sid ^ "," ^ v ^ "]" in
  let calls = List.concat_map (fun id ->
      let t = match tracks_get (n_of_int id) r.rd_tracks with Some t -> t | None -> failwith "track" in
      let n = min (int_of_n (mt_sample_count t)) maxs in
      [call "cnt" id 0]
      @ List.concat_map (fun k -> [call "off" id k; call "rs" id k]) (List.init (n + extra + 1) (fun k -> k))
      @ List.concat_map (fun k -> [call "off" id k; call "rs" id k]) [0x7fffffff; 0x80000000; 0xfffffffe; 0xffffffff]) ids in
  let unk = (List.fold_left max 0 ids + 1) land 0xffffffff in
  let calls = calls @ [call "cnt" unk 0; call "rs" unk 1; call "off" 0 1] in
  let md = rd_metadata r in
  [kv "acc" (obj [kv "size" (jn (rd_get_size r)); kv "major" (jn (rd_major_brand r)); kv "minor" (jn (rd_minor_version r));
                  kv "brands" (jl jn (rd_compatible_brands r)); kv "duration_ms" (jn (rd_duration_ms r)); kv "timescale" (jn (rd_timescale r));
                  kv "fragmented" (jb (rd_is_fragmented r))]);
   kv "tracks" ("[" ^ String.concat "," tracks ^ "]"); kv "calls" ("[" ^ String.concat "," calls ^ "]");
   kv "meta" (obj [kv "title" (jo jbytes (md_title md)); kv "year" (jo jn (md_year md)); kv "poster" (jo jbytes (md_poster md));
                   kv "summary" (jo jbytes (md_summary md))])]

let rclass_str = function
  | Ok _ -> "\"ok\"" | Err EIo -> "\"io\"" | Err _ -> "\"data\"" | Panic _ -> "\"panic\"" | OutOfFuel -> "\"oof\""

(* read <mode> <declared_len|-> <hex> [frag=<hex>] [extra=<n>] [maxs=<n>] [fail=<k>] *)
let cmd_read (toks : string list) : string =
  match toks with
  | md :: dlen :: data :: opts ->
    let m = mode_of md in
    let data = bytes_of_hex data in
    let len = List.length data in
    let opt k d = try let p = k ^ "=" in
        let t = List.find (fun s -> String.length s > String.length p && String.sub s 0 (String.length p) = p) opts in
        String.sub t (String.length p) (String.length t - String.length p) with Not_found -> d in
    let extra = int_of_string (opt "extra" "2") and maxs = int_of_string (opt "maxs" "400") in
    let declared = if dlen = "-" then n_of_int len else n_of_hex dlen in
    let fault = match opt "fail" "" with "" -> None | k -> Some (n_of_int (int_of_string k)) in
    let fuel = nat_of_int (len + 2) in
    let ((res, _), meter) = runm (open_fuel fuel m declared) (stream_at data N0) (meter0 fault) in
    let fields = [kv "open" (rclass_str res);
                  kv "ops" (jn meter.m_ops); kv "moved" (jn meter.m_bytes); kv "steps" (jn meter.m_steps);
                  kv "alloc_max" (jn meter.m_alloc_max); kv "alloc_sum" (jn meter.m_alloc_sum); kv "fired" (jb meter.m_fired)]
                 @ (match res with Panic s -> [kv "site" (jstr s)] | _ -> []) in
    let fields = match res with
      | Ok r ->
        let fr = (match opt "frag" "" with
            | "" -> []
            | fh ->
              let seg = bytes_of_hex fh in
              let (r2, _) = run (open_fragment_fuel (nat_of_int (List.length seg + 2)) m r (n_of_int (List.length seg))) (stream_at seg N0) in
              [kv "open_frag" (rclass_str r2)]
              @ (match r2 with Ok rr -> [kv "frag" (obj (dump_reader m rr seg extra maxs))] | Panic s -> [kv "frag_site" (jstr s)] | _ -> [])) in
        fields @ fr @ dump_reader m r data extra maxs
      | _ -> fields in
    obj fields
  | _ -> "EXN read args"


(* ---------- single boxes (decode-first codec run) ---------- *)
let rec jtree (t : tree) : string =
  match t with
  | TNum n -> "[\"num\"," ^ jn n ^ "]"
  | TInt z -> "[\"int\"," ^ jz z ^ "]"
  | TBool b -> "[\"bool\"," ^ jb b ^ "]"
  | TStr s -> "[\"str\"," ^ jbytes s ^ "]"
  | TFourCC c -> "[\"fourcc\"," ^ jn c ^ "]"
  | TList l -> "[\"list\"," ^ jl jtree l ^ "]"
  | TNone -> "[\"none\"]"
  | TSome t -> "[\"some\"," ^ jtree t ^ "]"
  | TEnum n -> "[\"enum\"," ^ jstr n ^ "]"
  | TRec (n, fs) -> "[\"rec\"," ^ jstr n ^ "," ^ jl (fun (f, v) -> "[" ^ jstr f ^ "," ^ jtree v ^ "]") fs ^ "]"
  | TTuple l -> "[\"tuple\"," ^ jl jtree l ^ "]"

let cmd_box (toks : string list) : string =
  match toks with
  | [md; data] ->
    let m = mode_of md in
    let data = bytes_of_hex data in
    let fuel = nat_of_int (List.length data + 2) in
    let (res, s') = run (dec_box_any fuel m) (stream_at data N0) in
    (match res with
     | Ok ((name, size), ob) ->
       let base = [kv "hdr" "\"ok\""; kv "name" (jn (u32_of_boxtype name)); kv "hsize" (jn size)] in
       (match ob with
        | None -> obj (base @ [kv "dec" "\"unsupported\""])
        | Some b ->
          let enc = enc_any m b in
          let bytes = wout enc in
          let fin = wfin enc in
          let re = (match fin with
              | Ok _ ->
                let (r2, s2) = run (dec_box_any (nat_of_int (List.length bytes + 2)) m) (stream_at bytes N0) in
                (match r2 with
                 | Ok ((_, _), Some b2) -> [kv "dec2" "\"ok\""; kv "pos2" (jn s2.s_pos); kv "val2" (jtree (show_any b2))]
                 | Ok ((_, _), None) -> [kv "dec2" "\"unsupported\""]
                 | r -> [kv "dec2" (rclass_str r)])
              | _ -> []) in
          obj (base @ [kv "dec" "\"ok\""; kv "pos" (jn s'.s_pos); kv "val" (jtree (show_any b)); kv "size" (jn (size_any b));
                       kv "type" (jn (u32_of_boxtype (type_any b))); kv "enc" (rclass_str fin);
                       kv "ret" (match fin with Ok n -> jn n | _ -> "null"); kv "bytes" (jbytes bytes)] @ re))
     | Err EIo -> obj [kv "hdr" "\"ok?\""; kv "dec" "\"io\""; kv "pos" (jn s'.s_pos)]
     | Err _ -> obj [kv "hdr" "\"ok?\""; kv "dec" "\"data\""; kv "pos" (jn s'.s_pos)]
     | Panic s -> obj [kv "hdr" "\"ok?\""; kv "dec" "\"panic\""; kv "site" (jstr s)]
     | OutOfFuel -> obj [kv "hdr" "\"ok?\""; kv "dec" "\"oof\""])
  | _ -> "EXN box args"


(* fraglookup <mode> <dflt> <datahex|-> ids=.. run=moof:bdo:dd:tfdt:hastrun:flags:count:doff:durs:sizes:cts ... *)
let cmd_fraglookup (toks : string list) : string =
  match toks with
  | md :: dflt :: data :: rest ->
    let m = mode_of md in
    let dflt = n_of_hex dflt in
    let data = bytes_of_hex data in
    let pref p s = String.length s > String.length p && String.sub s 0 (String.length p) = p in
    let ids = match List.find_opt (pref "ids=") rest with Some s -> nlist (String.sub s 4 (String.length s - 4)) | None -> [] in
    let on s = if s = "-" then None else Some (n_of_hex s) in
    let runs = List.filter_map (fun s ->
        if pref "run=" s then
          (match String.split_on_char ':' (String.sub s 4 (String.length s - 4)) with
           | [mo; bdo; dd; tf; ht; fl; cnt; doff; durs; sizes; cts] ->
             Some { fr_moof_offset = n_of_hex mo; fr_base_data_offset = on bdo; fr_default_duration = on dd; fr_tfdt = on tf;
                    fr_has_trun = (ht = "1"); fr_flags = n_of_hex fl; fr_sample_count = n_of_hex cnt;
                    fr_data_offset = (if doff = "-" then None else Some (z_of_dec doff));
                    fr_durations = nlist durs; fr_sizes = nlist sizes; fr_cts = nlist cts }
           | _ -> failwith "run")
        else None) rest in
    let t = { tr_id = n_of_int 1; tr_tables = { t_stsc = []; t_stsz_size = N0; t_stsz_count = N0; t_stsz_sizes = []; t_stco = None; t_co64 = None;
                                                t_stts = []; t_ctts = None; t_stss = None };
              tr_frags = runs; tr_default_sample_duration = dflt } in
    let cons = frag_consistent runs dflt in
    let exp = frag_expand runs dflt in
    "{\"consistent\":" ^ jb cons ^ ",\"count\":" ^ jn (sample_count t)
    ^ ",\"expand\":" ^ jl (fun ((((off, sz), st), du), ct) -> "[" ^ jn off ^ "," ^ jn sz ^ "," ^ jn st ^ "," ^ jn du ^ "," ^ jz ct ^ "]") exp
    ^ ",\"ids\":" ^ jl (fun k ->
        let (r, _) = run (read_sample m t k) (stream_at data N0) in
        "{\"k\":" ^ jn k ^ ",\"off\":" ^ jres jn (sample_offset m t k) ^ ",\"rs\":" ^ jres (jo jsample) r ^ "}") ids ^ "}"
  | _ -> "EXN fraglookup args"

(* ---------- commands ---------- *)
let handle (line : string) : string =
  match String.split_on_char ' ' line with
  | ["utf8"; h] ->
    let b = bytes_of_hex h in
    (if utf8_valid b then "1 " else "0 ") ^ hex_of_bytes (utf8_lossy b)
  | ["lang_code"; h] -> hex_of_n (language_code (bytes_of_hex h))
  | ["lang_string"; c] -> hex_of_bytes (language_string (n_of_hex c))
  | ["fourcc_display"; c] -> hex_of_bytes (fourcc_display (n_of_hex c))
  | ["fourcc_from_str"; h] -> show_res hex_of_n (fourcc_from_str (bytes_of_hex h))
  | ["boxtype"; c] -> let b = boxtype_of_u32 (n_of_hex c) in ocaml_string (name_of b) ^ " " ^ hex_of_n (u32_of_boxtype b)
  | ["parse_u32"; h] -> (match parse_u32 (bytes_of_hex h) with Some v -> "some " ^ hex_of_n v | None -> "none")
  | ["avc_profile"; p; c] -> show_res ocaml_string (avc_profile_try_from (n_of_hex p) (n_of_hex c))
  | ["tracktype_str"; h] -> show_res ocaml_string (tracktype_of_str (bytes_of_hex h))
  | ["mediatype_str"; h] -> show_res ocaml_string (mediatype_of_str (bytes_of_hex h))
  | ["iso"] ->
    let q s = "\"" ^ s ^ "\"" in
    let lst f l = "[" ^ String.concat "," (List.map f l) ^ "]" in
    let avc = Buffer.create 65536 in
    for p = 0 to 255 do for c = 0 to 255 do
      Buffer.add_char avc (match iso_avc_profile (n_of_int p) (n_of_int c) with
        | None -> '-'
        | Some s -> (match ocaml_string s with
            | "AvcConstrainedBaseline" -> 'C' | "AvcBaseline" -> 'B' | "AvcMain" -> 'M'
            | "AvcExtended" -> 'E' | "AvcHigh" -> 'H' | _ -> '?'))
    done done;
    "{" ^ String.concat "," [
      q "boxtypes" ^ ":" ^ lst (fun (n, c) -> "[" ^ q (ocaml_string n) ^ "," ^ string_of_int (int_of_n c) ^ "]") iso_boxtype_table;
      q "box_types" ^ ":" ^ lst (fun (a, b) -> "[" ^ q (ocaml_string a) ^ "," ^ q (ocaml_string b) ^ "]") iso_box_types;
      q "aot" ^ ":" ^ lst (fun (c, n) -> "[" ^ string_of_int (int_of_n c) ^ "," ^ q (ocaml_string n) ^ "]") iso_audio_object_types;
      q "sfi" ^ ":" ^ lst (fun ((c, n), f) -> "[" ^ string_of_int (int_of_n c) ^ "," ^ q (ocaml_string n) ^ "," ^ string_of_int (int_of_n f) ^ "]") iso_sample_freq;
      q "chan" ^ ":" ^ lst (fun (c, n) -> "[" ^ string_of_int (int_of_n c) ^ "," ^ q (ocaml_string n) ^ "]") iso_channel_config;
      q "datatype" ^ ":" ^ lst (fun (c, n) -> "[" ^ string_of_int (int_of_n c) ^ "," ^ q (ocaml_string n) ^ "]") iso_data_type;
      q "handlers" ^ ":" ^ lst (fun (k, h) -> "[" ^ q (ocaml_string k) ^ "," ^ q (ocaml_string h) ^ "," ^ string_of_int (int_of_n (cc h)) ^ "]") iso_handlers;
      q "media" ^ ":" ^ lst (fun (k, h) -> "[" ^ q (ocaml_string k) ^ "," ^ q (ocaml_string h) ^ "]") iso_media;
      q "avc" ^ ":" ^ q (Buffer.contents avc) ] ^ "}"
  | "mux" :: rest -> cmd_mux rest
  | "isofile" :: rest -> cmd_isofile rest
  | "lookup" :: rest -> cmd_lookup rest
  | "read" :: rest -> cmd_read rest
  | "box" :: rest -> cmd_box rest
  | "fraglookup" :: rest -> cmd_fraglookup rest
  | ["ping"] -> "pong"
  | _ -> "EXN unknown command"

exception Case_timeout
let () =
  Sys.set_signal Sys.sigalrm (Sys.Signal_handle (fun _ -> raise Case_timeout));
  let limit = try int_of_string (Sys.getenv "MODEL_CASE_SECONDS") with _ -> 5 in
  try
    while true do
      let line = input_line stdin in
      ignore (Unix.alarm limit);
      let out = try handle line with
        | Case_timeout -> "EXN Out_of_memory (case time limit: the model builds unary fuel from a huge count field)"
        | e -> "EXN " ^ Printexc.to_string e in
      ignore (Unix.alarm 0);
      print_string out; print_char '\n'
    done
  with End_of_file -> ()
