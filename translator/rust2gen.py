#!/usr/bin/env python3
"""rust2gen: regenerate the table-shaped fragments of the Coq model from /repo's
current Rust source (DESIGN.md 2.3).

Reads   <repo>/src/mp4box/mod.rs, <repo>/src/types.rs, <repo>/src/mp4box/*.rs
Writes  <out>/Tables.v       (Coq: association lists of numerals / names)
        <out>/tables.json    (the same data, for the python comparators)

The translator is a set of anchored regular expressions over very regular code.
When an item no longer matches it does NOT guess: the item is reported in
"untranslatable", the Coq definition for it is emitted as the empty list, and
the proofs over it fail (which the driver reports as a broken obligation).
"""
import json
import os
import re
import sys


def strip_comments(s):
    s = re.sub(r"/\*.*?\*/", "", s, flags=re.S)
    s = re.sub(r"//[^\n]*", "", s)
    return s


# an integer literal: hex / binary / octal / decimal, digit separators, optional type suffix
INT = r"(?:0[xX][0-9a-fA-F_]+|0[bB][01_]+|0[oO][0-7_]+|\d[\d_]*)(?:_?(?:u8|u16|u32|u64|u128|usize|i8|i16|i32|i64|i128|isize))?"


def num(tok):
    tok = re.sub(r"_?(?:u8|u16|u32|u64|u128|usize|i8|i16|i32|i64|i128|isize)$", "", tok)
    tok = tok.replace("_", "")
    if re.fullmatch(r"0\d+", tok):
        tok = tok.lstrip("0") or "0"      # a decimal literal with leading zeros (Rust reads it as decimal)
    return int(tok, 0)


def translate(repo):
    out = {"untranslatable": []}
    bad = out["untranslatable"]
    src = os.path.join(repo, "src")
    mod_rs = strip_comments(open(os.path.join(src, "mp4box", "mod.rs")).read())
    types_rs = strip_comments(open(os.path.join(src, "types.rs")).read())

    # --- boxtype! table ---------------------------------------------------
    m = re.search(r"^boxtype!\s*\{(.*?)^\}", mod_rs, flags=re.S | re.M)
    table = []
    if m:
        body = m.group(1)
        entries = [e.strip() for e in body.split(",") if e.strip()]
        for e in entries:
            mm = re.fullmatch(r"(\w+)\s*=>\s*(%s)" % INT, e)
            if not mm:
                bad.append("boxtype! entry: " + e)
                table = []
                break
            table.append([mm.group(1), num(mm.group(2))])
    else:
        bad.append("boxtype! invocation")
    out["boxtype_table"] = table

    # the macro body itself: From<u32> must be the table lookup with UnknownBox fallback
    mac = re.search(r"macro_rules!\s*boxtype\s*\{(.*?)^\}", mod_rs, flags=re.S | re.M)
    macro_ok = False
    if mac:
        b = re.sub(r"\s+", " ", mac.group(1))
        macro_ok = (
            "$( $value => BoxType::$name, )* _ => BoxType::UnknownBox(t)," in b
            and "$( BoxType::$name => $value, )* BoxType::UnknownBox(t) => t," in b
        )
    if not macro_ok:
        bad.append("boxtype! macro body")
    out["boxtype_macro_canonical"] = macro_ok

    # --- constants ----------------------------------------------------------
    consts = {}
    for name in ("HEADER_SIZE", "HEADER_EXT_SIZE"):
        mm = re.search(r"pub const %s\s*:\s*u64\s*=\s*(\w+)\s*;" % name, mod_rs)
        if mm:
            consts[name] = num(mm.group(1))
        else:
            bad.append("const " + name)
    out["consts"] = consts

    # --- enums with numeric discriminants and TryFrom -----------------------
    enums = {}
    for ename, ity in (
        ("AudioObjectType", "u8"),
        ("SampleFreqIndex", "u8"),
        ("ChannelConfig", "u8"),
        ("DataType", "u32"),
    ):
        e = {"discr": [], "tryfrom": []}
        mm = re.search(r"pub enum %s\s*\{(.*?)\}" % ename, types_rs, flags=re.S)
        if mm:
            for item in [x.strip() for x in mm.group(1).split(",") if x.strip()]:
                im = re.fullmatch(r"(\w+)\s*=\s*(%s)" % INT, item)
                if not im:
                    bad.append("enum %s item: %s" % (ename, item))
                    e["discr"] = []
                    break
                e["discr"].append([im.group(1), num(im.group(2))])
        else:
            bad.append("enum " + ename)
        mm = re.search(
            r"impl TryFrom<%s> for %s\s*\{.*?match value\s*\{(.*?)\}\s*\}\s*\}" % (ity, ename),
            types_rs,
            flags=re.S,
        )
        if mm:
            arms = [x.strip() for x in mm.group(1).split(",") if x.strip()]
            ok = True
            for a in arms:
                am = re.fullmatch(r"(%s)\s*=>\s*Ok\(%s::(\w+)\)" % (INT, ename), a)
                if am:
                    e["tryfrom"].append([num(am.group(1)), am.group(2)])
                elif re.fullmatch(r"_\s*=>\s*Err\(Error::InvalidData\(\"[^\"]*\"\)\)", a):
                    pass
                else:
                    ok = False
                    bad.append("TryFrom<%s> for %s arm: %s" % (ity, ename, a))
            if not ok:
                e["tryfrom"] = []
        else:
            bad.append("TryFrom for " + ename)
        e["discr"].sort(key=lambda x: x[1])
        e["tryfrom"].sort(key=lambda x: x[0])
        enums[ename] = e
    out["enums"] = enums

    # --- SampleFreqIndex::freq ----------------------------------------------
    freq = []
    mm = re.search(r"pub fn freq\(&self\)\s*->\s*u32\s*\{\s*match \*self\s*\{(.*?)\}", types_rs, flags=re.S)
    if mm:
        for a in [x.strip() for x in mm.group(1).split(",") if x.strip()]:
            am = re.fullmatch(r"SampleFreqIndex::(\w+)\s*=>\s*(%s)" % INT, a)
            if not am:
                bad.append("freq arm: " + a)
                freq = []
                break
            freq.append([am.group(1), num(am.group(2))])
    else:
        bad.append("SampleFreqIndex::freq")
    freq.sort(key=lambda x: -x[1])
    out["freq"] = freq

    # --- TrackType handler codes -----------------------------------------------
    handlers = []
    for v in ("VIDEO", "AUDIO", "SUBTITLE"):
        m1 = re.search(r'const HANDLER_TYPE_%s\s*:\s*&str\s*=\s*"(\w{4})"\s*;' % v, types_rs)
        m2 = re.search(
            r"const HANDLER_TYPE_%s_FOURCC\s*:\s*\[u8;\s*4\]\s*=\s*\[b'(.)',\s*b'(.)',\s*b'(.)',\s*b'(.)'\]\s*;" % v,
            types_rs,
        )
        if m1 and m2:
            handlers.append([v.capitalize(), m1.group(1), "".join(m2.groups())])
        else:
            bad.append("HANDLER_TYPE_" + v)
    # the four conversion impls must use those constants in the canonical arms
    canon = [
        r"HANDLER_TYPE_VIDEO\s*=>\s*Ok\(TrackType::Video\)",
        r"HANDLER_TYPE_AUDIO\s*=>\s*Ok\(TrackType::Audio\)",
        r"HANDLER_TYPE_SUBTITLE\s*=>\s*Ok\(TrackType::Subtitle\)",
        r"HANDLER_TYPE_VIDEO_FOURCC\s*=>\s*Ok\(TrackType::Video\)",
        r"HANDLER_TYPE_AUDIO_FOURCC\s*=>\s*Ok\(TrackType::Audio\)",
        r"HANDLER_TYPE_SUBTITLE_FOURCC\s*=>\s*Ok\(TrackType::Subtitle\)",
        r"TrackType::Video\s*=>\s*HANDLER_TYPE_VIDEO_FOURCC\.into\(\)",
        r"TrackType::Audio\s*=>\s*HANDLER_TYPE_AUDIO_FOURCC\.into\(\)",
        r"TrackType::Subtitle\s*=>\s*HANDLER_TYPE_SUBTITLE_FOURCC\.into\(\)",
    ]
    for c in canon:
        if not re.search(c, types_rs):
            bad.append("TrackType arm /%s/" % c)
    out["handlers"] = handlers

    media = []
    for v, var in (("H264", "H264"), ("H265", "H265"), ("VP9", "VP9"), ("AAC", "AAC"), ("TTXT", "TTXT")):
        m1 = re.search(r'const MEDIA_TYPE_%s\s*:\s*&str\s*=\s*"(\w+)"\s*;' % v, types_rs)
        # the variant is mapped to its constant in at least one impl (a second impl may delegate to the first), and no arm anywhere maps it to another constant
        arms = re.findall(r"MediaType::%s\s*=>\s*MEDIA_TYPE_(\w+)\b" % var, types_rs)
        if m1 and re.search(r"MEDIA_TYPE_%s\s*=>\s*Ok\(MediaType::%s\)" % (v, var), types_rs) and arms and all(a == v for a in arms):
            media.append([var, m1.group(1)])
        else:
            bad.append("MEDIA_TYPE_" + v)
    out["media"] = media

    # --- AvcProfile::try_from -------------------------------------------------------
    avc = {"mask": None, "shift": None, "arms": []}
    mm = re.search(
        r"impl TryFrom<\(u8,\s*u8\)> for AvcProfile\s*\{(.*?)\n\}", types_rs, flags=re.S
    )
    if mm:
        body = mm.group(1)
        m1 = re.search(
            r"let profile = value\.0;\s*let constraint_set1_flag = \(value\.1 & (%s)\) >> (\d+);\s*match \(profile, constraint_set1_flag\)\s*\{(.*?)\}" % INT,
            body,
            flags=re.S,
        )
        if m1:
            avc["mask"] = num(m1.group(1))
            avc["shift"] = int(m1.group(2))
            arms_src = m1.group(3)
            for a in re.findall(r"\(\s*(\d+)\s*,\s*(\d+|_)\s*\)\s*=>\s*Ok\(AvcProfile::(\w+)\)", arms_src):
                avc["arms"].append([int(a[0]), None if a[1] == "_" else int(a[1]), a[2]])
            n_arms = len(re.findall(r"=>", arms_src))
            if n_arms != len(avc["arms"]) + 1:
                bad.append("AvcProfile arms")
                avc["arms"] = []
        else:
            bad.append("AvcProfile::try_from body")
    else:
        bad.append("AvcProfile::try_from")
    out["avc_profile"] = avc

    # --- per-box get_type / box_type ----------------------------------------------------
    box_types = []
    boxdir = os.path.join(src, "mp4box")
    for fn in sorted(os.listdir(boxdir)):
        if not fn.endswith(".rs") or fn == "mod.rs":
            continue
        text = strip_comments(open(os.path.join(boxdir, fn)).read())
        text = text.split("#[cfg(test)]")[0]
        found = {}
        for mm in re.finditer(
            r"impl (\w+)\s*\{(?:(?!\nimpl ).)*?pub fn get_type\(&self\)\s*->\s*BoxType\s*\{\s*BoxType::(\w+)\s*\}",
            text,
            flags=re.S,
        ):
            found[mm.group(1)] = mm.group(2)
        for mm in re.finditer(
            r"impl Mp4Box for (\w+)\s*\{\s*fn box_type\(&self\)\s*->\s*BoxType\s*\{\s*(?:BoxType::(\w+)|self\.get_type\(\))\s*\}",
            text,
            flags=re.S,
        ):
            if mm.group(2):
                found[mm.group(1)] = mm.group(2)
            elif mm.group(1) not in found:
                bad.append("box_type of %s in %s" % (mm.group(1), fn))
        for k in sorted(found):
            box_types.append([k, found[k]])
    out["box_types"] = box_types

    # --- FLAG constants ---------------------------------------------------------------------
    flags = {}
    for fn, st in (("tfhd.rs", "TfhdBox"), ("trun.rs", "TrunBox")):
        text = strip_comments(open(os.path.join(boxdir, fn)).read())
        fl = []
        for mm in re.finditer(r"pub const (FLAG_\w+)\s*:\s*u32\s*=\s*(0[xX][0-9a-fA-F_]+|\d+)\s*;", text):
            fl.append([mm.group(1), num(mm.group(2))])
        if not fl:
            bad.append("flags of " + st)
        flags[st] = fl
    out["flags"] = flags

    # --- I/O discipline (C10) and state (C15) ---------------------------------------------------
    # The model's programs transfer bytes only through RdExact / WrAll nodes (read_exact / write_all, directly or through the byteorder
    # extension traits, whose names all start with read_/write_ followed by an integer type).  Every OTHER way of moving bytes that the
    # source uses is listed here (file, method, count); Props/C10.v pins the list the model was written against.
    raw = {}
    structs = {}
    interior = []
    header_writes = 0
    srcfiles = []
    for root, _, files in os.walk(src):
        for fn in sorted(files):
            if fn.endswith(".rs"):
                srcfiles.append(os.path.join(root, fn))
    for path in sorted(srcfiles):
        rel = os.path.relpath(path, repo)
        text = strip_comments(open(path).read()).split("#[cfg(test)]")[0]
        for mm in re.finditer(r"\.\s*(read|write|take|read_to_end|read_to_string|by_ref|chain|read_vectored|write_vectored|flush|fill_buf|consume|read_buf|read_line|lines|split)\s*\(", text):
            name = mm.group(1)
            before = text[max(0, mm.start() - 120):mm.start()]
            if name == "write" and re.search(r"BoxHeader::new\([^;{}]*\)\s*$", before):
                header_writes += 1          # BoxHeader::write: the library's own method, modelled as write_header
                continue
            if name in ("split", "lines") and not re.search(r"(reader|writer|stream)\s*$", before):
                continue                    # str::split / str::lines
            raw[(rel, name)] = raw.get((rel, name), 0) + 1
        for tok in re.findall(r"\b(BufReader|BufWriter|io::copy|Cell<|RefCell<|Mutex<|RwLock<|Atomic[A-Z]\w*|static\s+mut|thread_local!|lazy_static!|OnceCell|OnceLock|UnsafeCell)", text):
            interior.append([rel, re.sub(r"\s+", " ", tok)])
        for sm in re.finditer(r"struct\s+(Mp4Reader|Mp4Track|Mp4TrackWriter|Mp4Writer)\s*(?:<[^>]*>)?\s*\{(.*?)\n\}", text, flags=re.S):
            fields = re.findall(r"^\s*(?:pub(?:\([a-z]+\))?\s+)?(\w+)\s*:", sm.group(2), flags=re.M)
            structs[sm.group(1)] = fields
    out["io_raw_sites"] = [[f, n, c] for (f, n), c in sorted(raw.items())]
    out["boxheader_write_sites"] = header_writes
    out["interior_mutability"] = sorted(interior)
    for name in ("Mp4Reader", "Mp4Track", "Mp4TrackWriter", "Mp4Writer"):
        if name not in structs:
            bad.append("struct " + name)
    out["struct_fields"] = [[k, structs[k]] for k in sorted(structs)]
    return out


def coq_str(s):
    return '"' + s.replace('"', '""') + '"'


def emit_coq(t):
    L = []
    A = L.append
    A("(* GENERATED by translator/rust2gen.py from /repo's current source. Do not edit. *)")
    A("From Coq Require Import List NArith String.")
    A("Import ListNotations.")
    A("Open Scope N_scope.")
    A("Open Scope string_scope.")
    A("")
    A("Definition boxtype_table : list (string * N) := [")
    A(";\n".join("  (%s, 0x%08x)" % (coq_str(n), c) for n, c in t["boxtype_table"]))
    A("].")
    A("Definition boxtype_macro_canonical : bool := %s." % ("true" if t["boxtype_macro_canonical"] else "false"))
    A("Definition HEADER_SIZE : N := %d." % t["consts"].get("HEADER_SIZE", 0))
    A("Definition HEADER_EXT_SIZE : N := %d." % t["consts"].get("HEADER_EXT_SIZE", 0))
    for en, e in t["enums"].items():
        A("Definition %s_discr : list (string * N) := [" % en)
        A(";\n".join("  (%s, %d)" % (coq_str(n), v) for n, v in e["discr"]))
        A("].")
        A("Definition %s_tryfrom : list (N * string) := [" % en)
        A(";\n".join("  (%d, %s)" % (v, coq_str(n)) for v, n in e["tryfrom"]))
        A("].")
    A("Definition freq_table : list (string * N) := [")
    A(";\n".join("  (%s, %d)" % (coq_str(n), v) for n, v in t["freq"]))
    A("].")
    A("Definition handler_table : list (string * string * string) := [")
    A(";\n".join("  (%s, %s, %s)" % (coq_str(a), coq_str(b), coq_str(c)) for a, b, c in t["handlers"]))
    A("].")
    A("Definition media_table : list (string * string) := [")
    A(";\n".join("  (%s, %s)" % (coq_str(a), coq_str(b)) for a, b in t["media"]))
    A("].")
    avc = t["avc_profile"]
    A("Definition avc_mask : N := %d." % (avc["mask"] if avc["mask"] is not None else 0))
    A("Definition avc_shift : N := %d." % (avc["shift"] if avc["shift"] is not None else 0))
    A("Definition avc_arms : list (N * option N * string) := [")
    A(";\n".join(
        "  (%d, %s, %s)" % (p, "None" if c is None else "Some %d" % c, coq_str(n)) for p, c, n in avc["arms"]
    ))
    A("].")
    A("Definition box_types : list (string * string) := [")
    A(";\n".join("  (%s, %s)" % (coq_str(a), coq_str(b)) for a, b in t["box_types"]))
    A("].")
    for st, fl in t["flags"].items():
        A("Definition %s_flags : list (string * N) := [" % st)
        A(";\n".join("  (%s, 0x%x)" % (coq_str(n), v) for n, v in fl))
        A("].")
    A("Definition io_raw_sites : list (string * string * N) := [")
    A(";\n".join("  (%s, %s, %d)" % (coq_str(f), coq_str(n), c) for f, n, c in t["io_raw_sites"]))
    A("].")
    A("Definition boxheader_write_sites : N := %d." % t["boxheader_write_sites"])
    A("Definition interior_mutability : list (string * string) := [")
    A(";\n".join("  (%s, %s)" % (coq_str(f), coq_str(n)) for f, n in t["interior_mutability"]))
    A("].")
    A("Definition struct_fields : list (string * list string) := [")
    A(";\n".join("  (%s, [%s])" % (coq_str(k), "; ".join(coq_str(x) for x in fs)) for k, fs in t["struct_fields"]))
    A("].")
    A("Definition untranslatable : list string := [")
    A(";\n".join("  " + coq_str(x) for x in t["untranslatable"]))
    A("].")
    return "\n".join(L) + "\n"


def main():
    repo = sys.argv[1] if len(sys.argv) > 1 else "/repo"
    outdir = sys.argv[2] if len(sys.argv) > 2 else "."
    t = translate(repo)
    coq = emit_coq(t)
    vpath = os.path.join(outdir, "Tables.v")
    old = open(vpath).read() if os.path.exists(vpath) else None
    if old != coq:  # keep mtime when unchanged so make does not rebuild
        open(vpath, "w").write(coq)
    jpath = os.path.join(outdir, "tables.json")
    js = json.dumps(t, indent=1, sort_keys=True)
    if not os.path.exists(jpath) or open(jpath).read() != js:
        open(jpath, "w").write(js)
    if t["untranslatable"]:
        print("untranslatable: " + "; ".join(t["untranslatable"]))
    return 0


if __name__ == "__main__":
    sys.exit(main())
