//! `run`: the general harness. One JSON case per stdin line, one JSON result per line on stdout.
//!
//!   {"cmd":"read", "file":HEX, ["frag":HEX], ["len":N], ["frag_len":N], ["calls":[[kind,track,sample],..]],
//!                  ["fail":K], ["fail_kind":0|1], ["chunk":N], ["intr":N], ["json":true], ["dbg":true], ["bytes":true]}
//!   {"cmd":"box",  "data":HEX}                      decode-first codec run of one box
//!   {"cmd":"mux",  "base":N, "cfg":{..}, "ops":[..], ["fail":K], ["fail_kind":..], ["chunk":N], ["intr":N], ["readback":true]}
//!
//! Every library call runs under catch_unwind; the outcome class is ok / io / data / panic.
use mp4::*;
use mp4_verif_harness::*;
use mp4_verif_harness::{G_BYTES, G_OPS};
use serde_json::{json, Value};
use std::alloc::{GlobalAlloc, Layout, System};
use std::io::{BufRead, Cursor, Read, Seek, SeekFrom, Write};
use std::sync::atomic::{AtomicU64, Ordering};

// ---------------------------------------------------------------- counting allocator
struct Counting;
static LIVE: AtomicU64 = AtomicU64::new(0);
static PEAK: AtomicU64 = AtomicU64::new(0);
static MAXREQ: AtomicU64 = AtomicU64::new(0);
static TOTAL: AtomicU64 = AtomicU64::new(0);

unsafe impl GlobalAlloc for Counting {
    unsafe fn alloc(&self, l: Layout) -> *mut u8 {
        let p = System.alloc(l);
        if !p.is_null() {
            note_alloc(l.size() as u64);
        }
        p
    }
    unsafe fn dealloc(&self, p: *mut u8, l: Layout) {
        LIVE.fetch_sub(l.size() as u64, Ordering::Relaxed);
        System.dealloc(p, l)
    }
    unsafe fn alloc_zeroed(&self, l: Layout) -> *mut u8 {
        let p = System.alloc_zeroed(l);
        if !p.is_null() {
            note_alloc(l.size() as u64);
        }
        p
    }
    unsafe fn realloc(&self, p: *mut u8, l: Layout, new: usize) -> *mut u8 {
        let q = System.realloc(p, l, new);
        if !q.is_null() {
            LIVE.fetch_sub(l.size() as u64, Ordering::Relaxed);
            note_alloc(new as u64);
        }
        q
    }
}
fn note_alloc(n: u64) {
    let live = LIVE.fetch_add(n, Ordering::Relaxed) + n;
    PEAK.fetch_max(live, Ordering::Relaxed);
    MAXREQ.fetch_max(n, Ordering::Relaxed);
    TOTAL.fetch_add(n, Ordering::Relaxed);
}
#[global_allocator]
static A: Counting = Counting;
static OPS_OPEN: AtomicU64 = AtomicU64::new(0);
static MOVED_OPEN: AtomicU64 = AtomicU64::new(0);
static CALL_MAX_OPS: AtomicU64 = AtomicU64::new(0);
static CALL_MAX_MOVED: AtomicU64 = AtomicU64::new(0);
static CALL_MAX_US: AtomicU64 = AtomicU64::new(0);
static CALL_MAX_ALLOC: AtomicU64 = AtomicU64::new(0);

struct AllocMark {
    live0: u64,
}
fn alloc_mark() -> AllocMark {
    let live0 = LIVE.load(Ordering::Relaxed);
    PEAK.store(live0, Ordering::Relaxed);
    MAXREQ.store(0, Ordering::Relaxed);
    TOTAL.store(0, Ordering::Relaxed);
    AllocMark { live0 }
}
fn alloc_report(m: &AllocMark) -> Value {
    json!({"peak": PEAK.load(Ordering::Relaxed).saturating_sub(m.live0),
           "max": MAXREQ.load(Ordering::Relaxed), "total": TOTAL.load(Ordering::Relaxed)})
}

// ---------------------------------------------------------------- helpers
fn cls<T>(r: &std::thread::Result<mp4::Result<T>>) -> &'static str {
    match r {
        Ok(Ok(_)) => "ok",
        Ok(Err(Error::IoError(_))) => "io",
        Ok(Err(_)) => "data",
        Err(_) => "panic",
    }
}
fn guard<T>(f: impl FnOnce() -> T) -> std::thread::Result<T> {
    std::panic::catch_unwind(std::panic::AssertUnwindSafe(f))
}
fn gcls<T>(r: &std::thread::Result<T>) -> &'static str {
    if r.is_ok() { "ok" } else { "panic" }
}
fn u(v: &Value, k: &str) -> Option<u64> {
    v.get(k).and_then(|x| x.as_u64())
}
fn meter_opts<S>(m: &mut Meter<S>, c: &Value) {
    m.fail_at = u(c, "fail");
    m.fail_kind = u(c, "fail_kind").unwrap_or(0) as u8;
    m.chunk = u(c, "chunk").unwrap_or(0) as usize;
    m.interrupt_every = u(c, "intr").unwrap_or(0);
}

fn sample_json(r: &std::thread::Result<mp4::Result<Option<Mp4Sample>>>, want_bytes: bool) -> Value {
    match r {
        Ok(Ok(Some(s))) => {
            let mut v = json!({"r":"some","start":s.start_time,"dur":s.duration,"cts":s.rendering_offset,"sync":s.is_sync,"len":s.bytes.len()});
            if want_bytes {
                v["bytes"] = json!(hex(&s.bytes));
            } else {
                // cheap content fingerprint
                let mut h: u64 = 0xcbf29ce484222325;
                for b in s.bytes.iter() {
                    h = (h ^ (*b as u64)).wrapping_mul(0x100000001b3);
                }
                v["fp"] = json!(format!("{:016x}", h));
                let n = s.bytes.len();
                v["head"] = json!(hex(&s.bytes[..n.min(8)]));
                v["tail"] = json!(hex(&s.bytes[n.saturating_sub(8)..]));
            }
            v
        }
        Ok(Ok(None)) => json!({"r":"none"}),
        Ok(Err(Error::IoError(_))) => json!({"r":"io"}),
        Ok(Err(_)) => json!({"r":"data"}),
        Err(_) => json!({"r":"panic"}),
    }
}

fn res_str<T: std::fmt::Debug>(r: std::thread::Result<mp4::Result<T>>) -> Value {
    match r {
        Ok(Ok(v)) => json!(format!("ok:{:?}", v)),
        Ok(Err(Error::IoError(_))) => json!("io"),
        Ok(Err(_)) => json!("data"),
        Err(_) => json!("panic"),
    }
}

/// everything the read side exposes for one opened reader
fn dump_reader<R: Read + Seek>(r: &mut Mp4Reader<R>, c: &Value, out: &mut Value) {
    let want_bytes = c.get("bytes").and_then(|x| x.as_bool()).unwrap_or(false);
    out["ftyp"] = json!({"major": u32::from(&r.ftyp.major_brand), "minor": r.ftyp.minor_version,
        "brands": r.ftyp.compatible_brands.iter().map(|b| u32::from(b)).collect::<Vec<u32>>()});
    out["acc"] = json!({
        "size": gv(guard(|| r.size())),
        "major": gv(guard(|| u32::from(r.major_brand()))),
        "minor": gv(guard(|| r.minor_version())),
        "brands": gv(guard(|| r.compatible_brands().iter().map(|b| u32::from(b)).collect::<Vec<u32>>())),
        "duration_ms": gv(guard(|| r.duration().as_millis() as u64)),
        "duration_ns": gv(guard(|| r.duration().as_nanos() as u64)),
        "timescale": gv(guard(|| r.timescale())),
        "fragmented": gv(guard(|| r.is_fragmented())),
        "mvhd_duration": r.moov.mvhd.duration, "mvhd_version": r.moov.mvhd.version,
    });
    let mut ids: Vec<u32> = r.tracks().keys().copied().collect();
    ids.sort();
    let mut tracks = vec![];
    for id in ids.iter() {
        let t = r.tracks().get(id).unwrap();
        let mut tv = json!({"id": id});
        tv["track_id"] = gv(guard(|| t.track_id()));
        tv["type"] = res_str(guard(|| t.track_type()));
        tv["media"] = res_str(guard(|| t.media_type()));
        tv["box"] = res_str(guard(|| t.box_type().map(|f| u32::from(&f))));
        tv["w"] = gv(guard(|| t.width()));
        tv["h"] = gv(guard(|| t.height()));
        tv["fps_ok"] = json!(gcls(&guard(|| t.frame_rate())));
        tv["sfi"] = res_str(guard(|| t.sample_freq_index()));
        tv["chan"] = res_str(guard(|| t.channel_config()));
        tv["lang"] = gv(guard(|| hex(t.language().as_bytes())));
        tv["ts"] = gv(guard(|| t.timescale()));
        tv["dur_us"] = gv(guard(|| t.duration().as_micros() as u64));
        tv["bitrate"] = gv(guard(|| t.bitrate()));
        tv["count"] = gv(guard(|| t.sample_count()));
        tv["vprofile"] = res_str(guard(|| t.video_profile()));
        tv["sps"] = res_str(guard(|| t.sequence_parameter_set().map(hex)));
        tv["pps"] = res_str(guard(|| t.picture_parameter_set().map(hex)));
        tv["aprofile"] = res_str(guard(|| t.audio_profile()));
        tv["mdhd_duration"] = json!(t.trak.mdia.mdhd.duration);
        tv["mdhd_version"] = json!(t.trak.mdia.mdhd.version);
        tv["tkhd_duration"] = json!(t.trak.tkhd.duration);
        tv["tkhd_version"] = json!(t.trak.tkhd.version);
        tv["has_co64"] = json!(t.trak.mdia.minf.stbl.co64.is_some());
        tv["has_stco"] = json!(t.trak.mdia.minf.stbl.stco.is_some());
        if let Some(ref mp4a) = t.trak.mdia.minf.stbl.stsd.mp4a {
            if let Some(ref esds) = mp4a.esds {
                tv["esds"] = json!({"profile": esds.es_desc.dec_config.dec_specific.profile,
                    "freq_index": esds.es_desc.dec_config.dec_specific.freq_index,
                    "chan_conf": esds.es_desc.dec_config.dec_specific.chan_conf,
                    "avg_bitrate": esds.es_desc.dec_config.avg_bitrate,
                    "max_bitrate": esds.es_desc.dec_config.max_bitrate,
                    "buffer_size_db": esds.es_desc.dec_config.buffer_size_db});
            }
            tv["mp4a"] = json!({"channelcount": mp4a.channelcount, "samplesize": mp4a.samplesize, "samplerate": mp4a.samplerate.value()});
        }
        if let Some(ref avc1) = t.trak.mdia.minf.stbl.stsd.avc1 {
            tv["avcc"] = json!({"profile": avc1.avcc.avc_profile_indication, "compat": avc1.avcc.profile_compatibility,
                "level": avc1.avcc.avc_level_indication, "nsps": avc1.avcc.sequence_parameter_sets.len(),
                "npps": avc1.avcc.picture_parameter_sets.len()});
        }
        if let Some(ref hev1) = t.trak.mdia.minf.stbl.stsd.hev1 {
            tv["hev1"] = json!({"w": hev1.width, "h": hev1.height, "hvcc": format!("{:?}", hev1.hvcc)});
        }
        if let Some(ref vp09) = t.trak.mdia.minf.stbl.stsd.vp09 {
            tv["vp09"] = json!({"w": vp09.width, "h": vp09.height, "vpcc": format!("{:?}", vp09.vpcc)});
        }
        tracks.push(tv);
    }
    // calls
    let calls: Vec<(String, u32, u32)> = match c.get("calls") {
        Some(Value::Array(a)) => a.iter().map(|x| (x[0].as_str().unwrap_or("rs").to_string(), x[1].as_u64().unwrap_or(0) as u32, x[2].as_u64().unwrap_or(0) as u32)).collect(),
        _ => {
            let mut v = vec![];
            let extra = u(c, "extra").unwrap_or(2) as u32;
            for id in ids.iter() {
                let n = r.tracks().get(id).map(|t| guard(|| t.sample_count()).unwrap_or(0)).unwrap_or(0);
                let n = n.min(u(c, "max_samples").unwrap_or(400) as u32);
                v.push(("cnt".to_string(), *id, 0));
                for k in 0..=n.saturating_add(extra) {
                    v.push(("off".to_string(), *id, k));
                    v.push(("rs".to_string(), *id, k));
                }
                for k in [0x7fff_ffffu32, 0x8000_0000, 0xffff_fffe, 0xffff_ffff] {
                    v.push(("off".to_string(), *id, k));
                    v.push(("rs".to_string(), *id, k));
                }
            }
            // an unknown track
            let unk = ids.iter().max().map(|m| m.wrapping_add(1)).unwrap_or(1);
            v.push(("cnt".to_string(), unk, 0));
            v.push(("rs".to_string(), unk, 1));
            v.push(("off".to_string(), 0, 1));
            v
        }
    };
    let mut results = vec![];
    for (kind, tid, sid) in calls.iter() {
        let o0 = G_OPS.load(Ordering::Relaxed);
        let b0 = G_BYTES.load(Ordering::Relaxed);
        let c0 = std::time::Instant::now();
        let live0 = LIVE.load(Ordering::Relaxed);
        PEAK.store(live0, Ordering::Relaxed);
        let v = match kind.as_str() {
            "cnt" => res_str(guard(|| r.sample_count(*tid))),
            "off" => res_str(guard(|| r.sample_offset(*tid, *sid))),
            _ => sample_json(&guard(|| r.read_sample(*tid, *sid)), want_bytes),
        };
        CALL_MAX_OPS.fetch_max(G_OPS.load(Ordering::Relaxed).saturating_sub(o0), Ordering::Relaxed);
        CALL_MAX_MOVED.fetch_max(G_BYTES.load(Ordering::Relaxed).saturating_sub(b0), Ordering::Relaxed);
        CALL_MAX_US.fetch_max(c0.elapsed().as_micros() as u64, Ordering::Relaxed);
        CALL_MAX_ALLOC.fetch_max(PEAK.load(Ordering::Relaxed).saturating_sub(live0), Ordering::Relaxed);
        results.push(json!([kind, tid, sid, v]));
    }
    // revisit: the same offset / sample calls again on the SAME reader, in reverse order and in a scrambled order; every answer must be the one
    // given the first time (a lookup that keeps a cursor or a cached position between calls shows up here).  Not done under fault injection or
    // transfer splitting, where the k-th stream call legitimately decides the answer.
    let revisit = c.get("revisit").and_then(|x| x.as_bool()).unwrap_or(false)
        && c.get("fail").is_none() && c.get("chunk").is_none() && c.get("intr").is_none();
    if revisit {
        let idx: Vec<usize> = (0..calls.len()).filter(|i| calls[*i].0 != "cnt").collect();
        let mut order: Vec<usize> = idx.iter().rev().copied().collect();
        let mut x: u64 = 0x9e3779b97f4a7c15 ^ (calls.len() as u64);
        let mut scr = idx.clone();
        for i in (1..scr.len()).rev() {
            x = x.wrapping_mul(6364136223846793005).wrapping_add(1442695040888963407);
            scr.swap(i, ((x >> 33) as usize) % (i + 1));
        }
        order.extend(scr);
        let mut dep = vec![];
        for i in order {
            let (kind, tid, sid) = &calls[i];
            let v = match kind.as_str() {
                "off" => res_str(guard(|| r.sample_offset(*tid, *sid))),
                _ => sample_json(&guard(|| r.read_sample(*tid, *sid)), want_bytes),
            };
            if v != results[i][3] && dep.len() < 5 {
                dep.push(json!({"call": [kind, tid, sid], "first": results[i][3], "later": v}));
            }
        }
        out["order_dep"] = json!(dep);
    }
    out["tracks"] = json!(tracks);
    out["calls"] = json!(results);
    // metadata
    let md = guard(|| {
        let m = r.metadata();
        json!({"title": m.title().map(|s| hex(s.as_bytes())), "year": m.year(),
               "poster": m.poster().map(hex), "summary": m.summary().map(|s| hex(s.as_bytes()))})
    });
    out["meta"] = match md { Ok(v) => v, Err(_) => json!("panic") };
    if c.get("json").and_then(|x| x.as_bool()).unwrap_or(false) {
        let mut js = vec![];
        js.push(json!(["ftyp", cls(&guard(|| r.ftyp.to_json())), cls(&guard(|| r.ftyp.summary()))]));
        js.push(json!(["moov", cls(&guard(|| r.moov.to_json())), cls(&guard(|| r.moov.summary()))]));
        js.push(json!(["mvhd", cls(&guard(|| r.moov.mvhd.to_json())), cls(&guard(|| r.moov.mvhd.summary()))]));
        if let Some(ref udta) = r.moov.udta {
            js.push(json!(["udta", cls(&guard(|| udta.to_json())), cls(&guard(|| udta.summary()))]));
            if let Some(ref meta) = udta.meta {
                js.push(json!(["meta", cls(&guard(|| meta.to_json())), cls(&guard(|| meta.summary()))]));
                // the item list, every item and every data box on their own (their to_json / summary are public too)
                if let MetaBox::Mdir { ilst: Some(ref ilst) } = meta {
                    js.push(json!(["ilst", cls(&guard(|| Mp4Box::to_json(ilst))), cls(&guard(|| Mp4Box::summary(ilst)))]));
                    let mut oks = vec![];
                    for (_k, item) in ilst.items.iter() {
                        oks.push(cls(&guard(|| Mp4Box::to_json(&item.data))));
                        oks.push(cls(&guard(|| Mp4Box::summary(&item.data))));
                    }
                    oks.sort();
                    oks.dedup();
                    js.push(json!(["ilst.items", oks.join("+"), "-"]));
                }
            }
        }
        if let Some(ref meta) = r.moov.meta {
            js.push(json!(["moov.meta", cls(&guard(|| meta.to_json())), cls(&guard(|| meta.summary()))]));
        }
        if let Some(ref mvex) = r.moov.mvex {
            js.push(json!(["mvex", cls(&guard(|| mvex.to_json())), cls(&guard(|| mvex.summary()))]));
        }
        for t in r.moov.traks.iter() {
            js.push(json!(["trak", cls(&guard(|| t.to_json())), cls(&guard(|| t.summary()))]));
            js.push(json!(["tkhd", cls(&guard(|| t.tkhd.to_json())), cls(&guard(|| t.tkhd.summary()))]));
            js.push(json!(["mdia", cls(&guard(|| t.mdia.to_json())), cls(&guard(|| t.mdia.summary()))]));
            js.push(json!(["mdhd", cls(&guard(|| t.mdia.mdhd.to_json())), cls(&guard(|| t.mdia.mdhd.summary()))]));
            js.push(json!(["hdlr", cls(&guard(|| t.mdia.hdlr.to_json())), cls(&guard(|| t.mdia.hdlr.summary()))]));
            js.push(json!(["minf", cls(&guard(|| t.mdia.minf.to_json())), cls(&guard(|| t.mdia.minf.summary()))]));
            let stbl = &t.mdia.minf.stbl;
            js.push(json!(["stbl", cls(&guard(|| stbl.to_json())), cls(&guard(|| stbl.summary()))]));
            js.push(json!(["stsd", cls(&guard(|| stbl.stsd.to_json())), cls(&guard(|| stbl.stsd.summary()))]));
            js.push(json!(["stts", cls(&guard(|| stbl.stts.to_json())), cls(&guard(|| stbl.stts.summary()))]));
            js.push(json!(["stsc", cls(&guard(|| stbl.stsc.to_json())), cls(&guard(|| stbl.stsc.summary()))]));
            js.push(json!(["stsz", cls(&guard(|| stbl.stsz.to_json())), cls(&guard(|| stbl.stsz.summary()))]));
            if let Some(ref b) = stbl.ctts { js.push(json!(["ctts", cls(&guard(|| b.to_json())), cls(&guard(|| b.summary()))])); }
            if let Some(ref b) = stbl.stss { js.push(json!(["stss", cls(&guard(|| b.to_json())), cls(&guard(|| b.summary()))])); }
            if let Some(ref b) = stbl.stco { js.push(json!(["stco", cls(&guard(|| b.to_json())), cls(&guard(|| b.summary()))])); }
            if let Some(ref b) = stbl.co64 { js.push(json!(["co64", cls(&guard(|| b.to_json())), cls(&guard(|| b.summary()))])); }
            if let Some(ref b) = stbl.stsd.avc1 { js.push(json!(["avc1", cls(&guard(|| b.to_json())), cls(&guard(|| b.summary()))])); }
            if let Some(ref b) = stbl.stsd.hev1 { js.push(json!(["hev1", cls(&guard(|| b.to_json())), cls(&guard(|| b.summary()))])); }
            if let Some(ref b) = stbl.stsd.vp09 { js.push(json!(["vp09", cls(&guard(|| b.to_json())), cls(&guard(|| b.summary()))])); }
            if let Some(ref b) = stbl.stsd.mp4a { js.push(json!(["mp4a", cls(&guard(|| b.to_json())), cls(&guard(|| b.summary()))])); }
            if let Some(ref b) = stbl.stsd.tx3g { js.push(json!(["tx3g", cls(&guard(|| b.to_json())), cls(&guard(|| b.summary()))])); }
            if let Some(ref b) = t.edts { js.push(json!(["edts", cls(&guard(|| b.to_json())), cls(&guard(|| b.summary()))])); }
            if let Some(ref b) = t.meta { js.push(json!(["trak.meta", cls(&guard(|| b.to_json())), cls(&guard(|| b.summary()))])); }
        }
        for mf in r.moofs.iter() {
            js.push(json!(["moof", cls(&guard(|| mf.to_json())), cls(&guard(|| mf.summary()))]));
            js.push(json!(["mfhd", cls(&guard(|| mf.mfhd.to_json())), cls(&guard(|| mf.mfhd.summary()))]));
            for tf in mf.trafs.iter() {
                js.push(json!(["traf", cls(&guard(|| tf.to_json())), cls(&guard(|| tf.summary()))]));
                js.push(json!(["tfhd", cls(&guard(|| tf.tfhd.to_json())), cls(&guard(|| tf.tfhd.summary()))]));
                if let Some(ref b) = tf.tfdt { js.push(json!(["tfdt", cls(&guard(|| b.to_json())), cls(&guard(|| b.summary()))])); }
                if let Some(ref b) = tf.trun { js.push(json!(["trun", cls(&guard(|| b.to_json())), cls(&guard(|| b.summary()))])); }
            }
        }
        for e in r.emsgs.iter() {
            js.push(json!(["emsg", cls(&guard(|| e.to_json())), cls(&guard(|| e.summary()))]));
        }
        out["json"] = json!(js);
    }
    if c.get("dbg").and_then(|x| x.as_bool()).unwrap_or(false) {
        out["dbg"] = json!({"ftyp": format!("{:?}", r.ftyp), "moov": format!("{:?}", r.moov),
                            "moofs": format!("{:?}", r.moofs), "emsgs": format!("{:?}", r.emsgs)});
    }
}

fn gv<T: serde::Serialize>(r: std::thread::Result<T>) -> Value {
    match r {
        Ok(v) => json!(v),
        Err(_) => json!("panic"),
    }
}

fn cmd_read(c: &Value) -> Value {
    let file = unhex(c["file"].as_str().unwrap_or(""));
    let len = u(c, "len").unwrap_or(file.len() as u64);
    let mut out = json!({});
    let mark = alloc_mark();
    let flen = file.len();
    let base = u(c, "base").unwrap_or(0);
    let len = if c.get("len").is_some() { len } else { base + flen as u64 };
    let mut m = Meter::new(Based { base, cur: Cursor::new(file) });
    if base > 0 {
        let _ = m.inner.seek(SeekFrom::Start(base));
    }
    meter_opts(&mut m, c);
    let t0 = std::time::Instant::now();
    let opened = guard(|| Mp4Reader::read_header(&mut m, len));
    out["open"] = json!(cls(&opened));
    out["alloc_open"] = alloc_report(&mark);
    out["us_open"] = json!(t0.elapsed().as_micros() as u64);
    OPS_OPEN.store(G_OPS.load(Ordering::Relaxed), Ordering::Relaxed);
    MOVED_OPEN.store(G_BYTES.load(Ordering::Relaxed), Ordering::Relaxed);
    CALL_MAX_OPS.store(0, Ordering::Relaxed);
    CALL_MAX_MOVED.store(0, Ordering::Relaxed);
    CALL_MAX_US.store(0, Ordering::Relaxed);
    CALL_MAX_ALLOC.store(0, Ordering::Relaxed);
    match opened {
        Ok(Ok(mut r)) => {
            if let Some(fh) = c.get("frag").and_then(|x| x.as_str()) {
                let seg = unhex(fh);
                let slen = u(c, "frag_len").unwrap_or(seg.len() as u64);
                let mut m2 = Meter::new(Cursor::new(seg));
                let fo = guard(|| r.read_fragment_header(&mut m2, slen));
                out["open_frag"] = json!(cls(&fo));
                if let Ok(Ok(mut r2)) = fo {
                    let mut sub = json!({});
                    dump_reader(&mut r2, c, &mut sub);
                    out["frag"] = sub;
                }
            }
            dump_reader(&mut r, c, &mut out);
            drop(r);
        }
        _ => {}
    }
    out["ops"] = json!(m.ops);
    out["moved"] = json!(m.bytes);
    out["fired"] = json!(m.fired);
    out["alloc"] = alloc_report(&mark);
    out["n"] = json!(flen);
    out["us_total"] = json!(t0.elapsed().as_micros() as u64);
    out["ops_open"] = json!(OPS_OPEN.load(Ordering::Relaxed));
    out["moved_open"] = json!(MOVED_OPEN.load(Ordering::Relaxed));
    out["call_max_ops"] = json!(CALL_MAX_OPS.load(Ordering::Relaxed));
    out["call_max_moved"] = json!(CALL_MAX_MOVED.load(Ordering::Relaxed));
    out["call_max_us"] = json!(CALL_MAX_US.load(Ordering::Relaxed));
    out["call_max_alloc"] = json!(CALL_MAX_ALLOC.load(Ordering::Relaxed));
    out
}

// ---------------------------------------------------------------- decode-first codec run
macro_rules! box_case {
    ($t:ty, $cur:expr, $size:expr, $out:expr) => {{
        let r = guard(|| <$t>::read_box(&mut $cur, $size));
        $out["dec"] = json!(cls(&r));
        $out["pos"] = json!($cur.position());
        if let Ok(Ok(v)) = r {
            $out["val"] = json!(format!("{:?}", v));
            $out["size"] = gv(guard(|| v.box_size()));
            $out["type"] = gv(guard(|| u32::from(v.box_type())));
            $out["json"] = json!(cls(&guard(|| Mp4Box::to_json(&v))));
            $out["summary"] = json!(cls(&guard(|| Mp4Box::summary(&v))));
            let mut w: Vec<u8> = Vec::new();
            let e = guard(|| v.write_box(&mut w));
            $out["enc"] = json!(cls(&e));
            if let Ok(Ok(n)) = e {
                $out["ret"] = json!(n);
            }
            $out["bytes"] = json!(hex(&w));
            // decode the re-encoded bytes again (fixpoint)
            if let Ok(Ok(_)) = e {
                let mut c2 = Cursor::new(w.clone());
                let h2 = guard(|| BoxHeader::read(&mut c2));
                if let Ok(Ok(h2)) = h2 {
                    let r2 = guard(|| <$t>::read_box(&mut c2, h2.size));
                    $out["dec2"] = json!(cls(&r2));
                    $out["pos2"] = json!(c2.position());
                    if let Ok(Ok(v2)) = r2 {
                        $out["val2_eq"] = json!(format!("{:?}", v2) == format!("{:?}", v));
                        $out["eq2"] = json!(v2 == v);
                    }
                } else {
                    $out["dec2"] = json!("hdr");
                }
            }
        }
    }};
}

fn cmd_box(c: &Value) -> Value {
    let data = unhex(c["data"].as_str().unwrap_or(""));
    let mut out = json!({});
    let mut cur = Cursor::new(data);
    let h = guard(|| BoxHeader::read(&mut cur));
    out["hdr"] = json!(cls(&h));
    let h = match h {
        Ok(Ok(h)) => h,
        _ => return out,
    };
    out["name"] = json!(u32::from(h.name));
    out["hsize"] = json!(h.size);
    let size = h.size;
    match h.name {
        BoxType::FtypBox => box_case!(FtypBox, cur, size, out),
        BoxType::MvhdBox => box_case!(MvhdBox, cur, size, out),
        BoxType::MfhdBox => box_case!(MfhdBox, cur, size, out),
        BoxType::MoovBox => box_case!(MoovBox, cur, size, out),
        BoxType::MvexBox => box_case!(MvexBox, cur, size, out),
        BoxType::MehdBox => box_case!(MehdBox, cur, size, out),
        BoxType::TrexBox => box_case!(TrexBox, cur, size, out),
        BoxType::EmsgBox => box_case!(EmsgBox, cur, size, out),
        BoxType::MoofBox => box_case!(MoofBox, cur, size, out),
        BoxType::TkhdBox => box_case!(TkhdBox, cur, size, out),
        BoxType::TfhdBox => box_case!(TfhdBox, cur, size, out),
        BoxType::TfdtBox => box_case!(TfdtBox, cur, size, out),
        BoxType::EdtsBox => box_case!(EdtsBox, cur, size, out),
        BoxType::MdiaBox => box_case!(MdiaBox, cur, size, out),
        BoxType::ElstBox => box_case!(ElstBox, cur, size, out),
        BoxType::MdhdBox => box_case!(MdhdBox, cur, size, out),
        BoxType::HdlrBox => box_case!(HdlrBox, cur, size, out),
        BoxType::MinfBox => box_case!(MinfBox, cur, size, out),
        BoxType::VmhdBox => box_case!(VmhdBox, cur, size, out),
        BoxType::StblBox => box_case!(StblBox, cur, size, out),
        BoxType::StsdBox => box_case!(StsdBox, cur, size, out),
        BoxType::SttsBox => box_case!(SttsBox, cur, size, out),
        BoxType::CttsBox => box_case!(CttsBox, cur, size, out),
        BoxType::StssBox => box_case!(StssBox, cur, size, out),
        BoxType::StscBox => box_case!(StscBox, cur, size, out),
        BoxType::StszBox => box_case!(StszBox, cur, size, out),
        BoxType::StcoBox => box_case!(StcoBox, cur, size, out),
        BoxType::Co64Box => box_case!(Co64Box, cur, size, out),
        BoxType::TrakBox => box_case!(TrakBox, cur, size, out),
        BoxType::TrafBox => box_case!(TrafBox, cur, size, out),
        BoxType::TrunBox => box_case!(TrunBox, cur, size, out),
        BoxType::UdtaBox => box_case!(UdtaBox, cur, size, out),
        BoxType::MetaBox => box_case!(MetaBox, cur, size, out),
        BoxType::DinfBox => box_case!(DinfBox, cur, size, out),
        BoxType::SmhdBox => box_case!(SmhdBox, cur, size, out),
        BoxType::Avc1Box => box_case!(Avc1Box, cur, size, out),
        BoxType::Hev1Box => box_case!(Hev1Box, cur, size, out),
        BoxType::Mp4aBox => box_case!(Mp4aBox, cur, size, out),
        BoxType::Tx3gBox => box_case!(Tx3gBox, cur, size, out),
        BoxType::VpccBox => box_case!(VpccBox, cur, size, out),
        BoxType::Vp09Box => box_case!(Vp09Box, cur, size, out),
        BoxType::DataBox => box_case!(DataBox, cur, size, out),
        BoxType::IlstBox => box_case!(IlstBox, cur, size, out),
        _ => {
            out["dec"] = json!("unsupported");
        }
    }
    out
}

// ---------------------------------------------------------------- muxer
fn fourcc_of(v: &Value) -> FourCC {
    FourCC::from(v.as_u64().unwrap_or(0) as u32)
}
fn aot_of(n: u64) -> Option<AudioObjectType> { AudioObjectType::try_from(n as u8).ok() }
fn sfi_of(n: u64) -> Option<SampleFreqIndex> { SampleFreqIndex::try_from(n as u8).ok() }
fn chan_of(n: u64) -> Option<ChannelConfig> { ChannelConfig::try_from(n as u8).ok() }

fn track_config(a: &Value) -> Option<TrackConfig> {
    let media = match a["kind"].as_str()? {
        "avc" => MediaConfig::AvcConfig(AvcConfig { width: a["w"].as_u64()? as u16, height: a["h"].as_u64()? as u16,
            seq_param_set: unhex(a["sps"].as_str()?), pic_param_set: unhex(a["pps"].as_str()?) }),
        "hevc" => MediaConfig::HevcConfig(HevcConfig { width: a["w"].as_u64()? as u16, height: a["h"].as_u64()? as u16 }),
        "vp9" => MediaConfig::Vp9Config(Vp9Config { width: a["w"].as_u64()? as u16, height: a["h"].as_u64()? as u16 }),
        "aac" => MediaConfig::AacConfig(AacConfig { bitrate: a["bitrate"].as_u64()? as u32, profile: aot_of(a["profile"].as_u64()?)?,
            freq_index: sfi_of(a["freq_index"].as_u64()?)?, chan_conf: chan_of(a["chan_conf"].as_u64()?)? }),
        "ttxt" => MediaConfig::TtxtConfig(TtxtConfig {}),
        _ => return None,
    };
    let tt = match a["tt"].as_str()? { "Video" => TrackType::Video, "Audio" => TrackType::Audio, _ => TrackType::Subtitle };
    Some(TrackConfig { track_type: tt, timescale: a["ts"].as_u64()? as u32,
        language: String::from_utf8_lossy(&unhex(a["lang"].as_str()?)).into_owned(), media_conf: media })
}

fn sample_bytes(v: &Value) -> Vec<u8> {
    match v {
        Value::String(s) => unhex(s),
        Value::Object(_) => {
            let n = v["len"].as_u64().unwrap_or(0) as usize;
            let b = v["fill"].as_u64().unwrap_or(0) as u8;
            let step = v["step"].as_u64().unwrap_or(0) as u8;
            let mut out = vec![0u8; n];
            let mut x = b;
            for o in out.iter_mut() { *o = x; x = x.wrapping_add(step); }
            out
        }
        _ => vec![],
    }
}

/// an in-memory stream that starts at a non-zero position: positions below `base` are virtual
struct Based {
    base: u64,
    cur: Cursor<Vec<u8>>,
}
impl Write for Based {
    fn write(&mut self, b: &[u8]) -> std::io::Result<usize> { self.cur.write(b) }
    fn flush(&mut self) -> std::io::Result<()> { Ok(()) }
}
impl Read for Based {
    fn read(&mut self, b: &mut [u8]) -> std::io::Result<usize> { self.cur.read(b) }
}
impl Seek for Based {
    fn seek(&mut self, p: SeekFrom) -> std::io::Result<u64> {
        let r = match p {
            SeekFrom::Start(a) => {
                if a < self.base { return Err(std::io::Error::new(std::io::ErrorKind::InvalidInput, "seek before base")); }
                self.cur.seek(SeekFrom::Start(a - self.base))?
            }
            other => self.cur.seek(other)?,
        };
        Ok(r + self.base)
    }
}


/// A sparse in-memory stream for multi-GiB outputs: large writes of one repeated byte are stored as (byte, length).
enum Seg {
    Raw(Vec<u8>),
    Fill(u8, u64),
}
struct Sparse {
    base: u64,
    segs: Vec<(u64, Seg)>, // (start offset relative to base, segment), contiguous, in order
    len: u64,
    pos: u64,
}
impl Sparse {
    fn new(base: u64) -> Self { Sparse { base, segs: vec![], len: 0, pos: 0 } }
    fn seg_len(s: &Seg) -> u64 { match s { Seg::Raw(v) => v.len() as u64, Seg::Fill(_, n) => *n } }
    fn find(&self, off: u64) -> Option<usize> {
        let mut lo = 0usize; let mut hi = self.segs.len();
        while lo < hi { let mid = (lo + hi) / 2; let (st, sg) = &self.segs[mid];
            if off < *st { hi = mid } else if off >= *st + Self::seg_len(sg) { lo = mid + 1 } else { return Some(mid) } }
        None
    }
}
impl Write for Sparse {
    fn write(&mut self, b: &[u8]) -> std::io::Result<usize> {
        if b.is_empty() { return Ok(0); }
        if self.pos == self.len {
            let uniform = b.len() >= (1 << 16) && b.iter().all(|x| *x == b[0]);
            if uniform { self.segs.push((self.len, Seg::Fill(b[0], b.len() as u64))); }
            else if let Some((_, Seg::Raw(v))) = self.segs.last_mut() { if v.len() < (1 << 20) { v.extend_from_slice(b); } else { self.segs.push((self.len, Seg::Raw(b.to_vec()))); } }
            else { self.segs.push((self.len, Seg::Raw(b.to_vec()))); }
            self.len += b.len() as u64; self.pos = self.len;
            return Ok(b.len());
        }
        // overwrite (header patches): must lie inside one raw segment
        match self.find(self.pos) {
            Some(i) => { let (st, sg) = &mut self.segs[i];
                if let Seg::Raw(v) = sg { let o = (self.pos - *st) as usize;
                    if o + b.len() <= v.len() { v[o..o + b.len()].copy_from_slice(b); self.pos += b.len() as u64; return Ok(b.len()); } }
                Err(std::io::Error::new(std::io::ErrorKind::Other, "sparse: unsupported overwrite")) }
            None => Err(std::io::Error::new(std::io::ErrorKind::Other, "sparse: write beyond end")),
        }
    }
    fn flush(&mut self) -> std::io::Result<()> { Ok(()) }
}
impl Read for Sparse {
    fn read(&mut self, b: &mut [u8]) -> std::io::Result<usize> {
        if self.pos >= self.len || b.is_empty() { return Ok(0); }
        let i = match self.find(self.pos) { Some(i) => i, None => return Ok(0) };
        let (st, sg) = &self.segs[i];
        let o = self.pos - *st;
        let n = std::cmp::min(b.len() as u64, Self::seg_len(sg) - o) as usize;
        match sg { Seg::Raw(v) => b[..n].copy_from_slice(&v[o as usize..o as usize + n]), Seg::Fill(x, _) => { for y in b[..n].iter_mut() { *y = *x; } } }
        self.pos += n as u64;
        Ok(n)
    }
}
impl Seek for Sparse {
    fn seek(&mut self, p: SeekFrom) -> std::io::Result<u64> {
        let t: i128 = match p { SeekFrom::Start(a) => a as i128 - self.base as i128, SeekFrom::Current(d) => self.pos as i128 + d as i128, SeekFrom::End(d) => self.len as i128 + d as i128 };
        if t < 0 { return Err(std::io::Error::new(std::io::ErrorKind::InvalidInput, "seek before start")); }
        self.pos = t as u64;
        Ok(self.pos + self.base)
    }
}

fn cmd_mux_sparse(c: &Value) -> Value {
    let mut out = json!({});
    let base = u(c, "base").unwrap_or(0);
    let cfgv = &c["cfg"];
    let cfg = Mp4Config { major_brand: fourcc_of(&cfgv["major"]), minor_version: cfgv["minor"].as_u64().unwrap_or(0) as u32,
        compatible_brands: cfgv["brands"].as_array().map(|a| a.iter().map(fourcc_of).collect()).unwrap_or_default(), timescale: cfgv["timescale"].as_u64().unwrap_or(0) as u32 };
    let mut sp = Sparse::new(base);
    let mut statuses: Vec<Value> = vec![];
    let started = guard(|| Mp4Writer::write_start(&mut sp, &cfg));
    out["start"] = json!(cls(&started));
    let mut ended = "none";
    if let Ok(Ok(mut w)) = started {
        for op in c["ops"].as_array().cloned().unwrap_or_default().iter() {
            if let Some(a) = op.get("add") {
                if let Some(tc) = track_config(a) { let r = guard(|| w.add_track(&tc)); statuses.push(json!(cls(&r))); }
            } else if let Some(s) = op.get("w") {
                let sample = Mp4Sample { start_time: 0, duration: s[1].as_u64().unwrap_or(0) as u32, rendering_offset: s[2].as_i64().unwrap_or(0) as i32,
                    is_sync: s[3].as_bool().unwrap_or(false), bytes: sample_bytes(&s[4]).into() };
                let tid = s[0].as_u64().unwrap_or(0) as u32;
                let r = guard(|| w.write_sample(tid, &sample));
                statuses.push(json!(cls(&r)));
            }
        }
        let r = guard(|| w.write_end());
        ended = cls(&r);
        drop(w);
    }
    out["statuses"] = json!(statuses);
    out["end"] = json!(ended);
    out["len"] = json!(sp.len);
    out["segments"] = json!(sp.segs.iter().map(|(st, sg)| match sg { Seg::Raw(v) => json!(["raw", st, hex(v)]), Seg::Fill(x, n) => json!(["fill", st, x, n]) }).collect::<Vec<Value>>());
    if ended == "ok" {
        let n = sp.len;
        let _ = sp.seek(SeekFrom::Start(base));
        let opened = guard(|| Mp4Reader::read_header(&mut sp, base + n));
        let mut rb = json!({"open": cls(&opened)});
        if let Ok(Ok(mut r)) = opened { dump_reader(&mut r, c, &mut rb); }
        out["readback"] = rb;
    }
    out
}

fn cmd_mux(c: &Value) -> Value {
    if c.get("sparse").and_then(|x| x.as_bool()).unwrap_or(false) { return cmd_mux_sparse(c); }
    let mut out = json!({});
    let base = u(c, "base").unwrap_or(0);
    let cfgv = &c["cfg"];
    let cfg = Mp4Config {
        major_brand: fourcc_of(&cfgv["major"]),
        minor_version: cfgv["minor"].as_u64().unwrap_or(0) as u32,
        compatible_brands: cfgv["brands"].as_array().map(|a| a.iter().map(fourcc_of).collect()).unwrap_or_default(),
        timescale: cfgv["timescale"].as_u64().unwrap_or(0) as u32,
    };
    let mark = alloc_mark();
    let mut m = Meter::new(Based { base, cur: Cursor::new(Vec::new()) });
    meter_opts(&mut m, c);
    let mut statuses: Vec<Value> = vec![];
    let started = guard(|| Mp4Writer::write_start(&mut m, &cfg));
    out["start"] = json!(cls(&started));
    let mut ended = "none";
    let stop_on_io = c.get("stop_on_io").and_then(|x| x.as_bool()).unwrap_or(false);
    if let Ok(Ok(mut w)) = started {
        let mut stop = false;
        for op in c["ops"].as_array().cloned().unwrap_or_default().iter() {
            if stop { break; }
            if let Some(a) = op.get("add") {
                match track_config(a) {
                    Some(tc) => {
                        let r = guard(|| w.add_track(&tc));
                        if r.is_err() { stop = true; }
                        statuses.push(json!(cls(&r)));
                    }
                    None => statuses.push(json!("badcase")),
                }
            } else if let Some(s) = op.get("w") {
                let sample = Mp4Sample { start_time: s[5].as_u64().unwrap_or(0), duration: s[1].as_u64().unwrap_or(0) as u32,
                    rendering_offset: s[2].as_i64().unwrap_or(0) as i32, is_sync: s[3].as_bool().unwrap_or(false),
                    bytes: sample_bytes(&s[4]).into() };
                let tid = s[0].as_u64().unwrap_or(0) as u32;
                let r = guard(|| w.write_sample(tid, &sample));
                if r.is_err() { stop = true; }
                if stop_on_io && cls(&r) == "io" { stop = true; }
                statuses.push(json!(cls(&r)));
            } else if op.get("end").is_some() {
                let r = guard(|| w.write_end());
                if r.is_err() { stop = true; }
                statuses.push(json!(cls(&r)));
            }
        }
        // "abandon": the writer is given up without write_end (samples may still be buffered in its track writers)
        let abandon = c.get("abandon").and_then(|x| x.as_bool()).unwrap_or(false);
        if !stop && !abandon {
            let r = guard(|| w.write_end());
            ended = cls(&r);
        } else {
            ended = "skipped";
        }
        drop(w);
    }
    out["statuses"] = json!(statuses);
    out["end"] = json!(ended);
    out["ops"] = json!(m.ops);
    out["moved"] = json!(m.bytes);
    out["fired"] = json!(m.fired);
    out["alloc"] = alloc_report(&mark);
    let bytes = m.inner.cur.into_inner();
    out["len"] = json!(bytes.len());
    if c.get("want_bytes").and_then(|x| x.as_bool()).unwrap_or(true) {
        out["out"] = json!(hex(&bytes));
    }
    if ended == "ok" && c.get("readback").and_then(|x| x.as_bool()).unwrap_or(true) {
        let n = bytes.len() as u64;
        let mut b = Based { base, cur: Cursor::new(bytes) };
        let _ = b.seek(SeekFrom::Start(base));
        let opened = guard(|| Mp4Reader::read_header(&mut b, base + n));
        let mut rb = json!({"open": cls(&opened)});
        if let Ok(Ok(mut r)) = opened {
            dump_reader(&mut r, c, &mut rb);
        }
        out["readback"] = rb;
    }
    out
}

/// milliseconds since process start at which the current case began (0 = idle)
static CASE_START_MS: AtomicU64 = AtomicU64::new(0);

fn main() {
    silence_panics();
    // per-case watchdog: a case that runs longer than HARNESS_CASE_SECONDS (default 20) ends the process with exit code 3;
    // the driver then records the case as dead and restarts the worker after it
    let limit_ms: u64 = std::env::var("HARNESS_CASE_SECONDS").ok().and_then(|s| s.parse().ok()).unwrap_or(20) * 1000;
    let t0 = std::time::Instant::now();
    std::thread::spawn(move || loop {
        std::thread::sleep(std::time::Duration::from_millis(200));
        let st = CASE_START_MS.load(Ordering::Relaxed);
        if st != 0 && (t0.elapsed().as_millis() as u64).saturating_sub(st) > limit_ms {
            std::process::exit(3);
        }
    });
    let stdin = std::io::stdin();
    let stdout = std::io::stdout();
    let mut o = stdout.lock();
    for line in stdin.lock().lines() {
        let line = match line { Ok(l) => l, Err(_) => break };
        if line.trim().is_empty() { continue; }
        let c: Value = match serde_json::from_str(&line) {
            Ok(v) => v,
            Err(e) => { let _ = writeln!(o, "{}", json!({"error": format!("bad case: {}", e)})); continue; }
        };
        let big = c.get("sparse").and_then(|x| x.as_bool()).unwrap_or(false);
        CASE_START_MS.store(if big { 0 } else { (t0.elapsed().as_millis() as u64).max(1) }, Ordering::Relaxed);
        let r = guard(|| match c["cmd"].as_str().unwrap_or("") {
            "read" => cmd_read(&c),
            "box" => cmd_box(&c),
            "mux" => cmd_mux(&c),
            _ => json!({"error":"unknown cmd"}),
        });
        CASE_START_MS.store(0, Ordering::Relaxed);
        let v = match r { Ok(v) => v, Err(_) => json!({"error":"harness panic"}) };
        let _ = writeln!(o, "{}", v);
        let _ = o.flush();
    }
}
