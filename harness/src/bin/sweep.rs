//! C16: run the REAL conversions over their complete domains and print what
//! they do.  Nothing here knows the expected answers except the generic
//! round-trip laws; the python side compares the printed maps with the tables
//! regenerated from the source (Gen) and with the standard's tables (Iso).
use mp4::*;
use mp4_verif_harness::*;
use std::convert::TryFrom;
use std::fmt::Write as _;
use std::io::Cursor;
use std::sync::Mutex;

macro_rules! variants {
    ($($n:ident),*) => { vec![ $( (BoxType::$n, stringify!($n)) ),* ] }
}

fn known_variants() -> Vec<(BoxType, &'static str)> {
    variants!(
        FtypBox, MvhdBox, MfhdBox, FreeBox, MdatBox, MoovBox, MvexBox, MehdBox, TrexBox, EmsgBox,
        MoofBox, TkhdBox, TfhdBox, TfdtBox, EdtsBox, MdiaBox, ElstBox, MdhdBox, HdlrBox, MinfBox,
        VmhdBox, StblBox, StsdBox, SttsBox, CttsBox, StssBox, StscBox, StszBox, StcoBox, Co64Box,
        TrakBox, TrafBox, TrunBox, UdtaBox, MetaBox, DinfBox, DrefBox, UrlBox, SmhdBox, Avc1Box,
        AvcCBox, Hev1Box, HvcCBox, Mp4aBox, EsdsBox, Tx3gBox, VpccBox, Vp09Box, DataBox, IlstBox,
        NameBox, DayBox, CovrBox, DescBox, WideBox, WaveBox
    )
}

struct StackBuf { b: [u8; 16], n: usize }
impl std::fmt::Write for StackBuf {
    fn write_str(&mut self, s: &str) -> std::fmt::Result {
        let bs = s.as_bytes();
        if self.n + bs.len() > self.b.len() { return Err(std::fmt::Error); }
        self.b[self.n..self.n + bs.len()].copy_from_slice(bs);
        self.n += bs.len();
        Ok(())
    }
}

#[derive(Default)]
struct Acc {
    bt_known: Vec<(u32, String)>,
    bt_rt_fail: Vec<u32>,
    fcc_fail: Vec<u32>,
    text_fail: Vec<u32>,   // codes whose text form does not parse back although they are UTF-8
    text_lossy: u64,       // codes that are not UTF-8 (text cannot be lossless)
    text_lossy_ok: Vec<u32>, // not UTF-8 and yet the text parsed back to the same code (impossible)
    tt_ok: Vec<(u32, String)>,
    dt_ok: Vec<(u32, String)>,
    fp16_fail: Vec<u32>,
    n: u64,
}

fn sweep_u32(lo: u64, hi: u64, vars: &[(BoxType, &'static str)]) -> Acc {
    let mut a = Acc::default();
    for c64 in lo..hi {
        let c = c64 as u32;
        a.n += 1;
        // u32 -> BoxType -> u32
        let bt = BoxType::from(c);
        if u32::from(bt) != c {
            if a.bt_rt_fail.len() < 16 { a.bt_rt_fail.push(c); }
        }
        if bt != BoxType::UnknownBox(c) {
            let name = vars.iter().find(|(v, _)| *v == bt).map(|(_, n)| n.to_string()).unwrap_or_else(|| "?".to_string());
            a.bt_known.push((c, name));
        }
        // u32 -> FourCC -> u32, bytes, BoxType -> FourCC
        let f = FourCC::from(c);
        let back: u32 = f.into();
        let back2: u32 = (&f).into();
        let via_bt: FourCC = bt.into();
        if back != c || back2 != c || f.value != c.to_be_bytes() || via_bt != f || FourCC::from(c.to_be_bytes()) != f {
            if a.fcc_fail.len() < 16 { a.fcc_fail.push(c); }
        }
        // text form
        let utf8 = std::str::from_utf8(&f.value).is_ok();
        // cheap path: only format when needed (ASCII printable codes dominate the interesting set,
        // but the law must hold for all, so every code is formatted)
        if utf8 {
            // Display into a stack buffer (no allocation), then FromStr
            let mut sb = StackBuf { b: [0; 16], n: 0 };
            let _ = write!(sb, "{}", f);
            let parsed = std::str::from_utf8(&sb.b[..sb.n]).ok().and_then(|s| s.parse::<FourCC>().ok());
            let same = matches!(parsed, Some(g) if g == f);
            if !same && a.text_fail.len() < 16 { a.text_fail.push(c); }
        } else {
            // not UTF-8: the text form (a valid UTF-8 string) can never consist of these bytes, so it
            // cannot parse back to the same code; the library allocates twice per such code, so the
            // actual formatting is exercised on one code in 1021 only
            a.text_lossy += 1;
            if c % 1021 == 0 {
                let s = f.to_string();
                let same = matches!(s.parse::<FourCC>(), Ok(g) if g == f);
                if same && a.text_lossy_ok.len() < 16 { a.text_lossy_ok.push(c); }
            }
        }
        // TrackType::try_from(&FourCC)
        if let Ok(t) = TrackType::try_from(&f) {
            let back: FourCC = t.into();
            a.tt_ok.push((c, format!("{:?}:{}", t, u32::from(back))));
        }
        // DataType::try_from(u32)
        if let Ok(d) = DataType::try_from(c) {
            a.dt_ok.push((c, format!("{:?}:{}", d, d.clone() as u32)));
        }
        // FixedPointU16 raw
        let fp = FixedPointU16::new_raw(c);
        if fp.raw_value() != c || fp.value() != (c >> 16) as u16 {
            if a.fp16_fail.len() < 16 { a.fp16_fail.push(c); }
        }
    }
    a
}

fn mdhd_bytes(code: u16) -> Vec<u8> {
    let mut v = vec![0, 0, 0, 32, b'm', b'd', b'h', b'd', 0, 0, 0, 0];
    v.extend_from_slice(&[0; 16]);
    v.extend_from_slice(&code.to_be_bytes());
    v.extend_from_slice(&[0, 0]);
    v
}

fn main() {
    silence_panics();
    let args: Vec<String> = std::env::args().collect();
    let threads: u64 = args.get(1).and_then(|s| s.parse().ok()).unwrap_or(16);
    let total: u64 = 1u64 << 32;
    let vars = known_variants();
    let accs = Mutex::new(Vec::new());
    std::thread::scope(|sc| {
        for t in 0..threads {
            let vars = &vars;
            let accs = &accs;
            sc.spawn(move || {
                let lo = total * t / threads;
                let hi = total * (t + 1) / threads;
                let a = sweep_u32(lo, hi, vars);
                accs.lock().unwrap().push((t, a));
            });
        }
    });
    let mut accs = accs.into_inner().unwrap();
    accs.sort_by_key(|(t, _)| *t);
    let mut m = Acc::default();
    for (_, a) in accs {
        m.n += a.n;
        m.bt_known.extend(a.bt_known);
        m.bt_rt_fail.extend(a.bt_rt_fail);
        m.fcc_fail.extend(a.fcc_fail);
        m.text_fail.extend(a.text_fail);
        m.text_lossy += a.text_lossy;
        m.text_lossy_ok.extend(a.text_lossy_ok);
        m.tt_ok.extend(a.tt_ok);
        m.dt_ok.extend(a.dt_ok);
        m.fp16_fail.extend(a.fp16_fail);
    }
    let pairs = |v: &Vec<(u32, String)>| -> String {
        let items: Vec<String> = v.iter().map(|(c, n)| format!("[{},{}]", c, json_str(n))).collect();
        format!("[{}]", items.join(","))
    };
    let nums = |v: &Vec<u32>| -> String {
        let items: Vec<String> = v.iter().map(|c| c.to_string()).collect();
        format!("[{}]", items.join(","))
    };
    println!("{{\"map\":\"u32\",\"n\":{},\"boxtype_known\":{},\"boxtype_roundtrip_fail\":{},\"fourcc_fail\":{},\"text_fail\":{},\"text_non_utf8\":{},\"text_non_utf8_yet_lossless\":{},\"tracktype_ok\":{},\"datatype_ok\":{},\"fp16_raw_fail\":{}}}",
        m.n, pairs(&m.bt_known), nums(&m.bt_rt_fail), nums(&m.fcc_fail), nums(&m.text_fail), m.text_lossy, nums(&m.text_lossy_ok), pairs(&m.tt_ok), pairs(&m.dt_ok), nums(&m.fp16_fail));

    // text form of a fixed grid of codes (13^4), for the comparison with the model's Display/FromStr
    let grid: [u8; 13] = [0x00, 0x41, 0x7f, 0x80, 0xbf, 0xc2, 0xdf, 0xe0, 0xed, 0xf0, 0xf4, 0xff, 0xa9];
    let mut disp = String::new();
    for a in grid { for b in grid { for c in grid { for d in grid {
        let code = u32::from_be_bytes([a, b, c, d]);
        let f = FourCC::from(code);
        let s = f.to_string();
        let back = match s.parse::<FourCC>() { Ok(g) => format!("{:x}", u32::from(g)), Err(_) => "e".to_string() };
        disp.push_str(&format!("{:x}:{}:{};", code, hex(s.as_bytes()), back));
    }}}}
    for code in [0xa96e616du32, 0xa9646179, 0x66747970, 0x75726c20] {
        let f = FourCC::from(code);
        let s = f.to_string();
        let back = match s.parse::<FourCC>() { Ok(g) => format!("{:x}", u32::from(g)), Err(_) => "e".to_string() };
        disp.push_str(&format!("{:x}:{}:{};", code, hex(s.as_bytes()), back));
    }
    println!("{{\"map\":\"fourcc_text_grid\",\"entries\":{}}}", json_str(&disp));

    // named variants: BoxType -> u32 -> BoxType
    let mut named = Vec::new();
    for (v, n) in &vars {
        let c: u32 = (*v).into();
        let back = BoxType::from(c);
        named.push(format!("[{},{},{}]", json_str(n), c, back == *v));
    }
    println!("{{\"map\":\"boxtype_named\",\"entries\":[{}]}}", named.join(","));

    // from_str with lengths other than four bytes
    let mut bad_len = Vec::new();
    for s in ["", "a", "ab", "abc", "abcde", "abcdefgh", "\u{e9}a", "\u{e9}\u{e9}\u{e9}"] {
        bad_len.push(format!("[{},{}]", json_str(s), s.parse::<FourCC>().is_ok()));
    }
    println!("{{\"map\":\"fourcc_from_str_len\",\"entries\":[{}]}}", bad_len.join(","));

    // u8 enums
    let mut aot = Vec::new();
    let mut sfi = Vec::new();
    let mut chan = Vec::new();
    for v in 0..=255u8 {
        if let Ok(x) = AudioObjectType::try_from(v) { aot.push(format!("[{},{},{}]", v, json_str(&format!("{:?}", x)), x as u8)); }
        if let Ok(x) = SampleFreqIndex::try_from(v) { sfi.push(format!("[{},{},{},{}]", v, json_str(&format!("{:?}", x)), x as u8, x.freq())); }
        if let Ok(x) = ChannelConfig::try_from(v) { chan.push(format!("[{},{},{}]", v, json_str(&format!("{:?}", x)), x as u8)); }
    }
    println!("{{\"map\":\"aot\",\"entries\":[{}]}}", aot.join(","));
    println!("{{\"map\":\"sfi\",\"entries\":[{}]}}", sfi.join(","));
    println!("{{\"map\":\"chan\",\"entries\":[{}]}}", chan.join(","));

    // AvcProfile over all pairs: print as a 65536-char string of digits/'-'
    let mut avc = String::with_capacity(65536);
    for p in 0..=255u8 {
        for c in 0..=255u8 {
            let ch = match AvcProfile::try_from((p, c)) {
                Ok(AvcProfile::AvcConstrainedBaseline) => 'C',
                Ok(AvcProfile::AvcBaseline) => 'B',
                Ok(AvcProfile::AvcMain) => 'M',
                Ok(AvcProfile::AvcExtended) => 'E',
                Ok(AvcProfile::AvcHigh) => 'H',
                Err(_) => '-',
            };
            avc.push(ch);
        }
    }
    println!("{{\"map\":\"avc\",\"table\":{}}}", json_str(&avc));

    // track kind / media kind by text
    let mut tt = Vec::new();
    for s in ["vide", "soun", "sbtl", "text", "hint", "", "vid", "video", "VIDE", "subt", "meta"] {
        let r = TrackType::try_from(s);
        tt.push(format!("[{},{}]", json_str(s), json_str(&match r { Ok(t) => format!("{:?}", t), Err(_) => "Err".to_string() })));
    }
    println!("{{\"map\":\"tracktype_str\",\"entries\":[{}]}}", tt.join(","));
    let mut mt = Vec::new();
    for s in ["h264", "h265", "vp9", "aac", "ttxt", "", "H264", "avc1", "vp09", "mp4a", "hevc", "aac "] {
        let r = MediaType::try_from(s);
        mt.push(format!("[{},{}]", json_str(s), json_str(&match r {
            Ok(t) => { let back: &str = t.into(); let back2: &str = (&t).into(); format!("{:?}:{}:{}:{}", t, back, back2, t) }
            Err(_) => "Err".to_string() })));
    }
    println!("{{\"map\":\"mediatype_str\",\"entries\":[{}]}}", mt.join(","));

    // fixed point
    let mut fp_fail = Vec::new();
    for v in 0..=255u8 {
        let f = FixedPointU8::new(v);
        if f.value() != v || f.raw_value() != (v as u16) << 8 { fp_fail.push(format!("\"u8.new {}\"", v)); }
        let g = FixedPointI8::new(v as i8);
        if g.value() != v as i8 || g.raw_value() != (v as i8 as i16) * 256 { fp_fail.push(format!("\"i8.new {}\"", v as i8)); }
    }
    for r in 0..=65535u16 {
        let f = FixedPointU8::new_raw(r);
        if f.raw_value() != r || f.value() != (r >> 8) as u8 { fp_fail.push(format!("\"u8.raw {}\"", r)); }
        let g = FixedPointI8::new_raw(r as i16);
        // truncating division toward zero, as the integer part of a ratio
        if g.raw_value() != r as i16 || g.value() != ((r as i16) / 256) as i8 { fp_fail.push(format!("\"i8.raw {}\"", r as i16)); }
        let h = FixedPointU16::new(r);
        if h.value() != r || h.raw_value() != (r as u32) << 16 { fp_fail.push(format!("\"u16.new {}\"", r)); }
    }
    fp_fail.truncate(32);
    println!("{{\"map\":\"fixed\",\"failures\":[{}]}}", fp_fail.join(","));

    // packed language: all 2^16 codes through the real mdhd decoder, then back through the encoder
    let mut lang = String::with_capacity(65536 * 6);
    let mut lang_back = Vec::with_capacity(65536);
    let mut lang_err = 0u32;
    for code in 0..=65535u16 {
        let b = mdhd_bytes(code);
        let mut cur = Cursor::new(&b[..]);
        let r = guarded(|| { let h = BoxHeader::read(&mut cur)?; MdhdBox::read_box(&mut cur, h.size) });
        match r {
            Ok(Ok(m)) => {
                lang.push_str(&hex(m.language.as_bytes()));
                lang.push(',');
                let mut out = Vec::new();
                let w = guarded(|| m.write_box(&mut out));
                if let Ok(Ok(_)) = w { lang_back.push(u16::from_be_bytes([out[28], out[29]]) as u32); } else { lang_back.push(0xFFFF_FFFF); lang_err += 1; }
            }
            _ => { lang.push_str("!,"); lang_back.push(0xFFFF_FFFF); lang_err += 1; }
        }
    }
    println!("{{\"map\":\"lang\",\"errors\":{},\"strings\":{},\"back\":{}}}", lang_err, json_str(&lang), nums(&lang_back));
    // all letter triples through the encoder then the decoder
    let mut trip_fail = Vec::new();
    let mut trip_n = 0u32;
    for a in b'a'..=b'z' { for b in b'a'..=b'z' { for c in b'a'..=b'z' {
        trip_n += 1;
        let s = String::from_utf8(vec![a, b, c]).unwrap();
        let m = MdhdBox { language: s.clone(), ..Default::default() };
        let mut out = Vec::new();
        let ok = guarded(|| m.write_box(&mut out));
        let mut good = false;
        if let Ok(Ok(_)) = ok {
            let code = u16::from_be_bytes([out[28], out[29]]);
            let expect = ((a as u16 - 0x60) << 10) | ((b as u16 - 0x60) << 5) | (c as u16 - 0x60);
            let mut cur = Cursor::new(&out[..]);
            let r = guarded(|| { let h = BoxHeader::read(&mut cur)?; MdhdBox::read_box(&mut cur, h.size) });
            if let Ok(Ok(m2)) = r { good = m2.language == s && code == expect; }
        }
        if !good && trip_fail.len() < 16 { trip_fail.push(json_str(&s)); }
    }}}
    println!("{{\"map\":\"lang_triples\",\"n\":{},\"failures\":[{}]}}", trip_n, trip_fail.join(","));
}
