//! Shared helpers for the verification harness binaries.
//!
//! Every binary is line oriented: one case per stdin line, one result line per
//! case on stdout, so the python driver can shard cases over processes.
use std::io::{Read, Seek, SeekFrom, Write};
use std::panic::{catch_unwind, AssertUnwindSafe};
use std::sync::atomic::{AtomicU64, Ordering};

/// mirrors of the counters of the most recently used Meter (readable while a reader borrows the stream)
pub static G_OPS: AtomicU64 = AtomicU64::new(0);
pub static G_BYTES: AtomicU64 = AtomicU64::new(0);

pub fn unhex(s: &str) -> Vec<u8> {
    let s = s.trim();
    let b = s.as_bytes();
    let mut out = Vec::with_capacity(b.len() / 2);
    let mut i = 0;
    while i + 1 < b.len() {
        let h = (b[i] as char).to_digit(16).unwrap() as u8;
        let l = (b[i + 1] as char).to_digit(16).unwrap() as u8;
        out.push(h << 4 | l);
        i += 2;
    }
    out
}

pub fn hex(b: &[u8]) -> String {
    const D: &[u8; 16] = b"0123456789abcdef";
    let mut s = String::with_capacity(b.len() * 2);
    for x in b {
        s.push(D[(x >> 4) as usize] as char);
        s.push(D[(x & 15) as usize] as char);
    }
    s
}

pub fn silence_panics() {
    std::panic::set_hook(Box::new(|_| {}));
}

/// Outcome class of a library call, the granularity at which model and
/// implementation are compared.
pub fn class_of<T>(r: &Result<mp4::Result<T>, Box<dyn std::any::Any + Send>>) -> &'static str {
    match r {
        Ok(Ok(_)) => "ok",
        Ok(Err(mp4::Error::IoError(_))) => "io",
        Ok(Err(_)) => "data",
        Err(_) => "panic",
    }
}

pub fn guarded<T>(f: impl FnOnce() -> mp4::Result<T>) -> Result<mp4::Result<T>, Box<dyn std::any::Any + Send>> {
    catch_unwind(AssertUnwindSafe(f))
}

pub fn json_str(s: &str) -> String {
    let mut o = String::with_capacity(s.len() + 2);
    o.push('"');
    for c in s.chars() {
        match c {
            '"' => o.push_str("\\\""),
            '\\' => o.push_str("\\\\"),
            '\n' => o.push_str("\\n"),
            '\r' => o.push_str("\\r"),
            '\t' => o.push_str("\\t"),
            c if (c as u32) < 0x20 => o.push_str(&format!("\\u{:04x}", c as u32)),
            c => o.push(c),
        }
    }
    o.push('"');
    o
}

/// Counting / fault-injecting / transfer-splitting stream wrapper.
pub struct Meter<S> {
    pub inner: S,
    pub ops: u64,
    pub bytes: u64,
    /// fail the call with this 0-based index
    pub fail_at: Option<u64>,
    /// what the failing call does: 0 = Err(Other), 1 = write returns Ok(0)
    pub fail_kind: u8,
    pub fired: bool,
    /// deliver at most this many bytes per read/write call (0 = unlimited)
    pub chunk: usize,
    /// every n-th call reports ErrorKind::Interrupted first (0 = never)
    pub interrupt_every: u64,
    interrupted_last: bool,
}

impl<S> Meter<S> {
    pub fn new(inner: S) -> Self {
        Meter { inner, ops: 0, bytes: 0, fail_at: None, fail_kind: 0, fired: false, chunk: 0, interrupt_every: 0, interrupted_last: false }
    }
    fn tick(&mut self, is_write: bool, is_seek: bool) -> std::io::Result<Option<usize>> {
        // only reads and writes may legally report Interrupted (read_exact / write_all retry them); seeks are never retried by anyone
        if !is_seek && self.interrupt_every > 0 && !self.interrupted_last && (self.ops + 1) % self.interrupt_every == 0 {
            self.interrupted_last = true;
            return Err(std::io::Error::new(std::io::ErrorKind::Interrupted, "injected interrupt"));
        }
        self.interrupted_last = false;
        let idx = self.ops;
        self.ops += 1;
        G_OPS.store(self.ops, Ordering::Relaxed);
        if self.fail_at == Some(idx) {
            self.fired = true;
            if self.fail_kind == 1 && is_write {
                return Ok(Some(0));
            }
            // the kind of the injected error (any kind is a failure of the stream; Interrupted is injected separately because it is retried by design)
            let kind = match self.fail_kind {
                2 => std::io::ErrorKind::UnexpectedEof,
                3 => std::io::ErrorKind::BrokenPipe,
                4 => std::io::ErrorKind::InvalidData,
                5 => std::io::ErrorKind::WriteZero,
                6 => std::io::ErrorKind::TimedOut,
                _ => std::io::ErrorKind::Other,
            };
            return Err(std::io::Error::new(kind, "injected fault"));
        }
        Ok(None)
    }
}

impl<S: Read> Read for Meter<S> {
    fn read(&mut self, buf: &mut [u8]) -> std::io::Result<usize> {
        if let Some(n) = self.tick(false, false)? {
            return Ok(n);
        }
        let lim = if self.chunk > 0 { buf.len().min(self.chunk) } else { buf.len() };
        let n = self.inner.read(&mut buf[..lim])?;
        self.bytes += n as u64;
        G_BYTES.store(self.bytes, Ordering::Relaxed);
        Ok(n)
    }
}

impl<S: Write> Write for Meter<S> {
    fn write(&mut self, buf: &[u8]) -> std::io::Result<usize> {
        if let Some(n) = self.tick(true, false)? {
            return Ok(n);
        }
        let lim = if self.chunk > 0 { buf.len().min(self.chunk) } else { buf.len() };
        let n = self.inner.write(&buf[..lim])?;
        self.bytes += n as u64;
        Ok(n)
    }
    fn flush(&mut self) -> std::io::Result<()> {
        self.inner.flush()
    }
}

impl<S: Seek> Seek for Meter<S> {
    fn seek(&mut self, pos: SeekFrom) -> std::io::Result<u64> {
        self.tick(false, true)?;
        self.inner.seek(pos)
    }
}
